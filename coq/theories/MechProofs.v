(** * MechProofs.v — invariants of the sequential handle machine, for every history.

    [Good]: nothing undefined has happened; for every live block the count equals the number
    of owning table entries (raw pointers and forgotten handles included) and is at least one;
    a released block has no owner left; every handle's block has the class, the length record
    and the initialisation state its kind promises; a [UniqueArc]-like handle is the only owner.

    [step_good]: every operation preserves it (unless the process aborted), hence
    [reachable_good] for every history.  The per-property statements are in MechProps.v. *)
From Coq Require Import NArith List Bool Arith Lia.
From TV Require Import Mech.
Import ListNotations.
Open Scope N_scope.

Arguments N.add : simpl never.
Arguments N.sub : simpl never.
Arguments N.mul : simpl never.
Arguments N.pow : simpl never.
Arguments N.modulo : simpl never.
Arguments N.eqb : simpl never.
Arguments N.ltb : simpl never.
Arguments N.leb : simpl never.
Arguments N.of_nat : simpl never.

(** ** lists *)
Lemma upd_length {A} (l : list A) i x : length (upd l i x) = length l.
Proof. revert i; induction l as [|a r IH]; intros [|i]; simpl; auto. Qed.

Lemma nth_upd_same {A} (l : list A) i x : (i < length l)%nat -> nth_error (upd l i x) i = Some x.
Proof. revert i; induction l as [|a r IH]; intros [|i] H; simpl in *; try lia; auto; try (apply IH; lia). Qed.

Lemma nth_upd_other {A} (l : list A) i j x : i <> j -> nth_error (upd l i x) j = nth_error l j.
Proof.
  revert i j; induction l as [|a r IH]; intros [|i] [|j] H; simpl; auto; try congruence.
  all: try (apply IH; congruence).
Qed.

Lemma nth_upd {A} (l : list A) i j x :
  nth_error (upd l i x) j = if Nat.eqb i j then (if Nat.ltb i (length l) then Some x else None) else nth_error l j.
Proof.
  destruct (Nat.eqb_spec i j) as [->|Hne].
  - destruct (Nat.ltb_spec j (length l)) as [Hlt|Hge].
    + apply nth_upd_same; auto.
    + apply nth_error_None. rewrite upd_length; lia.
  - apply nth_upd_other; auto.
Qed.

Lemma upd_app_l {A} (l r : list A) i x : (i < length l)%nat -> upd (l ++ r) i x = upd l i x ++ r.
Proof. revert i; induction l as [|a l IH]; intros [|i] H; simpl in *; try lia; auto; try (f_equal; apply IH; lia). Qed.

Lemma nth_some_lt {A} (l : list A) i x : nth_error l i = Some x -> (i < length l)%nat.
Proof. intros H. apply nth_error_Some. congruence. Qed.

(** ** owners *)
Definition own1 (o : option handle) (l : loc) : nat :=
  match o with Some x => if Nat.eqb (hl x) l then 1%nat else 0%nat | None => 0%nat end.

Lemma owners_nil l : owners [] l = 0%nat. Proof. reflexivity. Qed.
Lemma owners_cons o t l : owners (o :: t) l = (own1 o l + owners t l)%nat.
Proof. unfold owners, own1. simpl. destruct o as [x|]; simpl; auto. destruct (Nat.eqb (hl x) l); simpl; auto. Qed.
Lemma owners_app t o l : owners (t ++ [o]) l = (owners t l + own1 o l)%nat.
Proof. induction t as [|a t IH]; [rewrite app_nil_l, !owners_cons, owners_nil; lia|]. simpl app. rewrite !owners_cons, IH. lia. Qed.
Lemma owners_upd t i o o' l : nth_error t i = Some o -> (owners (upd t i o') l + own1 o l = owners t l + own1 o' l)%nat.
Proof.
  revert i; induction t as [|a t IH]; intros [|i] H; simpl in H; try discriminate.
  - inversion H; subst. simpl upd. rewrite !owners_cons. lia.
  - simpl upd. rewrite !owners_cons. specialize (IH i H). lia.
Qed.
Lemma owners_ge1 t i x l : nth_error t i = Some (Some x) -> hl x = l -> (1 <= owners t l)%nat.
Proof.
  revert i; induction t as [|a t IH]; intros [|i] H E; simpl in H; try discriminate.
  - inversion H as [Ha]. rewrite owners_cons. simpl. rewrite E, Nat.eqb_refl. lia.
  - rewrite owners_cons. specialize (IH i H E). lia.
Qed.
Lemma owners_ge2 t i j x y l :
  i <> j -> nth_error t i = Some (Some x) -> nth_error t j = Some (Some y) -> hl x = l -> hl y = l -> (2 <= owners t l)%nat.
Proof.
  revert i j; induction t as [|a t IH]; intros [|i] [|j] Hne Hi Hj Ex Ey; simpl in *; try discriminate; try congruence.
  - inversion Hi as [Ha]. rewrite owners_cons. simpl. rewrite Ex, Nat.eqb_refl. pose proof (owners_ge1 t j y l Hj Ey). lia.
  - inversion Hj as [Ha]. rewrite owners_cons. simpl. rewrite Ey, Nat.eqb_refl. pose proof (owners_ge1 t i x l Hi Ex). lia.
  - rewrite owners_cons. assert (i <> j) by congruence. specialize (IH i j H Hi Hj Ex Ey). lia.
Qed.

Lemma owners_pos_ex t l : (0 < owners t l)%nat -> exists i x, nth_error t i = Some (Some x) /\ hl x = l.
Proof.
  induction t as [|a t IH]; intros H; [rewrite owners_nil in H; lia|].
  rewrite owners_cons in H. destruct a as [y|]; simpl in H.
  - destruct (Nat.eqb_spec (hl y) l) as [E|NE].
    + exists 0%nat, y. split; auto.
    + destruct IH as (i & x & H1 & H2); [lia|]. exists (S i), x; auto.
  - destruct IH as (i & x & H1 & H2); [lia|]. exists (S i), x; auto.
Qed.

(** ** the invariant *)
Definition thin_ok (b : block) : Prop := b_reclen b = N.of_nat (length (b_cells b)).

Definition handle_ok (x : handle) (b : block) : Prop :=
  (hk x = KForgotten \/ kind_cls (hk x) = Some (b_cls b)) /\
  (is_unique_kind (hk x) = true -> b_cnt b = 1) /\
  ((hk x = KThin \/ hk x = KRawThin \/ hk x = KProt \/ (hk x = KFat /\ hm x = MShared)) -> thin_ok b) /\
  (uninit_view (hk x) = false -> hk x <> KForgotten -> all_init (b_cells b) = true) /\
  ((b_cls b = CS \/ b_cls b = CB) -> length (b_cells b) = 1%nat).

Definition blk_ok (t : list (option handle)) (l : loc) (b : block) : Prop :=
  if b_alive b then b_cnt b = N.of_nat (owners t l) /\ (0 < owners t l)%nat /\ b_cnt b <= 2 ^ 63
  else owners t l = 0%nat.

Record GoodC (hp : list block) (u : bool) (t : list (option handle)) : Prop := mkGood {
  g_ub : u = false;
  g_blk : forall l b, nth_error hp l = Some b -> blk_ok t l b;
  g_hdl : forall i x, nth_error t i = Some (Some x) -> exists b, nth_error hp (hl x) = Some b /\ handle_ok x b }.

Definition Good (s : st) : Prop := GoodC (heap (ms s)) (ub (ms s)) (tbl s).
Definition Inv (s : st) : Prop := dead s = false -> Good s.

Lemma good_init : Good init_st.
Proof.
  constructor; simpl; auto.
  - intros l b H. destruct l; discriminate.
  - intros i x H. destruct i; discriminate.
Qed.

(** a handle's block is alive, and its count is the number of owners *)
Lemma handle_block hp u t i x :
  GoodC hp u t -> nth_error t i = Some (Some x) ->
  exists b, nth_error hp (hl x) = Some b /\ b_alive b = true /\ handle_ok x b /\
            b_cnt b = N.of_nat (owners t (hl x)) /\ (0 < owners t (hl x))%nat /\ b_cnt b <= 2 ^ 63.
Proof.
  intros G H. destruct (g_hdl _ _ _ G i x H) as (b & Hb & Hok).
  exists b. pose proof (g_blk _ _ _ G _ _ Hb) as B. unfold blk_ok in B.
  pose proof (owners_ge1 t i x _ H eq_refl).
  destruct (b_alive b); [tauto | lia].
Qed.

Lemma handle_ok_cnt x b c : is_unique_kind (hk x) = false -> handle_ok x b -> handle_ok x (set_cnt b c).
Proof. intros U (A & B & C & D & E). split; [exact A|]. split; [rewrite U; discriminate|]. split; [exact C|]. split; [exact D|exact E]. Qed.

(** *** shape lemmas: the ways an operation may change heap and table *)

(** the handle at [i] changes kind/mode, same block *)
Lemma good_set hp u t i x x' :
  GoodC hp u t -> nth_error t i = Some (Some x) -> hl x' = hl x ->
  (forall b, nth_error hp (hl x) = Some b -> b_alive b = true -> handle_ok x b -> b_cnt b = N.of_nat (owners t (hl x)) -> handle_ok x' b) ->
  GoodC hp u (upd t i (Some x')).
Proof.
  intros G Hi El Hok. constructor.
  - apply (g_ub _ _ _ G).
  - intros l b Hb. pose proof (g_blk _ _ _ G _ _ Hb) as B. unfold blk_ok in *.
    pose proof (owners_upd t i (Some x) (Some x') l Hi) as O. simpl in O. rewrite El in O.
    destruct (Nat.eqb (hl x) l); replace (owners (upd t i (Some x')) l) with (owners t l) by lia; exact B.
  - intros j y Hj. rewrite nth_upd in Hj. destruct (Nat.eqb_spec i j) as [->|Hne].
    + destruct (Nat.ltb j (length t)); [|discriminate]. inversion Hj; subst y.
      destruct (handle_block _ _ _ _ _ G Hi) as (b & Hb & Al & Ok & Cn & _).
      exists b. rewrite El. split; auto.
    + apply (g_hdl _ _ _ G j y Hj).
Qed.

(** a new owner of [l] is pushed and the count goes up by one *)
Lemma good_inc hp u t i x l b x' :
  GoodC hp u t -> nth_error t i = Some (Some x) -> hl x = l -> is_unique_kind (hk x) = false ->
  nth_error hp l = Some b -> b_cnt b <= 2 ^ 63 - 1 -> hl x' = l ->
  handle_ok x' (set_cnt b (b_cnt b + 1)) ->
  GoodC (upd hp l (set_cnt b (b_cnt b + 1))) u (t ++ [Some x']).
Proof.
  intros G Hi El Hu Hb Hc El' Hok'.
  destruct (handle_block _ _ _ _ _ G Hi) as (b0 & Hb0 & Al & Ok & Cn & Pos & Le). rewrite El in *.
  assert (b0 = b) by congruence. subst b0.
  pose proof (nth_some_lt _ _ _ Hb) as Hlt.
  constructor.
  - apply (g_ub _ _ _ G).
  - intros l2 b2 H2. rewrite nth_upd in H2. unfold blk_ok. rewrite owners_app. simpl own1. rewrite El'.
    destruct (Nat.eqb_spec l l2) as [<-|Hne].
    + apply Nat.ltb_lt in Hlt. rewrite Hlt in H2. inversion H2; subst b2. unfold blk_ok. simpl. rewrite Al.
      rewrite Cn. split; [lia|]. split; [lia|]. rewrite Cn in Hc. lia.
    + pose proof (g_blk _ _ _ G _ _ H2) as B. unfold blk_ok in *. replace (owners t l2 + 0)%nat with (owners t l2) by lia. exact B.
  - intros j y Hj.
    assert (Hy : nth_error t j = Some (Some y) \/ (y = x' /\ j = length t)).
    { destruct (Nat.lt_ge_cases j (length t)) as [L|L].
      - left. rewrite nth_error_app1 in Hj; auto.
      - right. rewrite nth_error_app2 in Hj; auto. destruct (j - length t)%nat as [|k] eqn:E; simpl in Hj.
        + inversion Hj; split; auto; lia.
        + destruct k; discriminate. }
    destruct Hy as [Hy|[-> _]].
    + destruct (g_hdl _ _ _ G j y Hy) as (by_ & Hby & Oky).
      destruct (Nat.eqb_spec (hl y) l) as [Ey|Ney].
      * rewrite Ey in *. assert (by_ = b) by congruence. subst by_.
        exists (set_cnt b (b_cnt b + 1)). split; [rewrite nth_upd_same; auto|].
        apply handle_ok_cnt; auto.
        destruct (is_unique_kind (hk y)) eqn:Uy; auto. exfalso.
        destruct Oky as (_ & U1 & _). specialize (U1 Uy).
        assert (i <> j) by (intros ->; rewrite Hi in Hy; inversion Hy; subst; congruence).
        pose proof (owners_ge2 t i j x y l H Hi Hy El Ey). rewrite Cn in U1. lia.
      * exists by_. split; auto. rewrite nth_upd_other; auto.
    + exists (set_cnt b (b_cnt b + 1)). rewrite El'. split; [rewrite nth_upd_same; auto|auto].
Qed.

(** the owner at [i] goes away; it was not the last one *)
Lemma good_dec hp u t i x l b :
  GoodC hp u t -> nth_error t i = Some (Some x) -> hl x = l ->
  nth_error hp l = Some b -> b_cnt b <> 1 ->
  GoodC (upd hp l (set_cnt b (b_cnt b - 1))) u (upd t i None).
Proof.
  intros G Hi El Hb Hc.
  destruct (handle_block _ _ _ _ _ G Hi) as (b0 & Hb0 & Al & Ok & Cn & Pos & Le). rewrite El in *.
  assert (b0 = b) by congruence. subst b0.
  pose proof (nth_some_lt _ _ _ Hb) as Hlt.
  constructor.
  - apply (g_ub _ _ _ G).
  - intros l2 b2 H2. rewrite nth_upd in H2.
    pose proof (owners_upd t i (Some x) None l2 Hi) as O. simpl in O. rewrite El in O.
    destruct (Nat.eqb_spec l l2) as [<-|Hne].
    + apply Nat.ltb_lt in Hlt. rewrite Hlt in H2. inversion H2; subst b2. unfold blk_ok. simpl. rewrite Al.
      rewrite Cn in *. split; [lia|]. split; [lia|lia].
    + pose proof (g_blk _ _ _ G _ _ H2) as B. unfold blk_ok in *.
      replace (owners (upd t i None) l2) with (owners t l2) by lia. exact B.
  - intros j y Hj. rewrite nth_upd in Hj. destruct (Nat.eqb_spec i j) as [->|Hne].
    + destruct (Nat.ltb j (length t)); discriminate.
    + destruct (g_hdl _ _ _ G j y Hj) as (by_ & Hby & Oky).
      destruct (Nat.eqb_spec (hl y) l) as [Ey|Ney].
      * rewrite Ey in *. assert (by_ = b) by congruence. subst by_.
        exists (set_cnt b (b_cnt b - 1)). split; [rewrite nth_upd_same; auto|].
        apply handle_ok_cnt; auto.
        destruct (is_unique_kind (hk y)) eqn:Uy; auto. exfalso.
        destruct Oky as (_ & U1 & _). specialize (U1 Uy). congruence.
      * exists by_. split; auto. rewrite nth_upd_other; auto.
Qed.

(** the last owner goes away and the block is released *)
Lemma good_free hp u t i x l b b' :
  GoodC hp u t -> nth_error t i = Some (Some x) -> hl x = l ->
  nth_error hp l = Some b -> b_cnt b = 1 -> b_alive b' = false ->
  GoodC (upd hp l b') u (upd t i None).
Proof.
  intros G Hi El Hb Hc Hd.
  destruct (handle_block _ _ _ _ _ G Hi) as (b0 & Hb0 & Al & Ok & Cn & Pos & Le). rewrite El in *.
  assert (b0 = b) by congruence. subst b0.
  pose proof (nth_some_lt _ _ _ Hb) as Hlt.
  assert (O1 : owners t l = 1%nat) by (rewrite Cn in Hc; lia).
  constructor.
  - apply (g_ub _ _ _ G).
  - intros l2 b2 H2. rewrite nth_upd in H2.
    pose proof (owners_upd t i (Some x) None l2 Hi) as O. simpl in O. rewrite El in O.
    destruct (Nat.eqb_spec l l2) as [<-|Hne].
    + apply Nat.ltb_lt in Hlt. rewrite Hlt in H2. inversion H2; subst b2. unfold blk_ok. rewrite Hd. lia.
    + pose proof (g_blk _ _ _ G _ _ H2) as B. unfold blk_ok in *.
      replace (owners (upd t i None) l2) with (owners t l2) by lia. exact B.
  - intros j y Hj. rewrite nth_upd in Hj. destruct (Nat.eqb_spec i j) as [->|Hne].
    + destruct (Nat.ltb j (length t)); discriminate.
    + destruct (g_hdl _ _ _ G j y Hj) as (by_ & Hby & Oky).
      destruct (Nat.eqb_spec (hl y) l) as [Ey|Ney].
      * exfalso. pose proof (owners_ge2 t i j x y l Hne Hi Hj El Ey). lia.
      * exists by_. split; auto. rewrite nth_upd_other; auto.
Qed.

(** a fresh block with one owner *)
Lemma good_new hp u t nb x' :
  GoodC hp u t -> b_alive nb = true -> b_cnt nb = 1 -> hl x' = length hp -> handle_ok x' nb ->
  GoodC (hp ++ [nb]) u (t ++ [Some x']).
Proof.
  intros G Al Cn El Ok.
  assert (Z : owners t (length hp) = 0%nat).
  { destruct (owners t (length hp)) eqn:E; auto. exfalso.
    destruct (owners_pos_ex t (length hp)) as (i & x & Hi & Ex); [lia|].
    destruct (g_hdl _ _ _ G i x Hi) as (b & Hb & _). apply nth_some_lt in Hb. lia. }
  constructor.
  - apply (g_ub _ _ _ G).
  - intros l b Hb. unfold blk_ok. rewrite owners_app. simpl own1. rewrite El.
    destruct (Nat.lt_ge_cases l (length hp)) as [L|L].
    + rewrite nth_error_app1 in Hb; auto. pose proof (g_blk _ _ _ G _ _ Hb) as B.
      assert (Nat.eqb (length hp) l = false) by (apply Nat.eqb_neq; lia). rewrite H.
      unfold blk_ok in *. replace (owners t l + 0)%nat with (owners t l) by lia. exact B.
    + rewrite nth_error_app2 in Hb; auto. destruct (l - length hp)%nat as [|k] eqn:E; simpl in Hb; [|destruct k; discriminate].
      inversion Hb; subst b. assert (l = length hp) by lia. subst l. rewrite Nat.eqb_refl.
      unfold blk_ok. rewrite Al, Cn, Z. simpl. split; [reflexivity|]. split; [lia|]. apply N.lt_le_incl. reflexivity.
  - intros j y Hj.
    destruct (Nat.lt_ge_cases j (length t)) as [L|L].
    + rewrite nth_error_app1 in Hj; auto. destruct (g_hdl _ _ _ G j y Hj) as (b & Hb & Oky).
      exists b. split; auto. rewrite nth_error_app1; auto. apply nth_some_lt in Hb; auto.
    + rewrite nth_error_app2 in Hj; auto. destruct (j - length t)%nat as [|k] eqn:E; simpl in Hj; [|destruct k; discriminate].
      inversion Hj; subst y. exists nb. rewrite El. split; auto. rewrite nth_error_app2; auto. rewrite Nat.sub_diag. reflexivity.
Qed.

(** the cells of a block change: same number, nothing becomes uninitialised *)
Lemma good_cells hp u t l b cs' :
  GoodC hp u t -> nth_error hp l = Some b -> length cs' = length (b_cells b) ->
  (all_init (b_cells b) = true -> all_init cs' = true) ->
  GoodC (upd hp l (set_cells b cs')) u t.
Proof.
  intros G Hb Hlen Hinit. pose proof (nth_some_lt _ _ _ Hb) as Hlt.
  constructor.
  - apply (g_ub _ _ _ G).
  - intros l2 b2 H2. rewrite nth_upd in H2. destruct (Nat.eqb_spec l l2) as [<-|Hne].
    + apply Nat.ltb_lt in Hlt. rewrite Hlt in H2. inversion H2; subst b2.
      pose proof (g_blk _ _ _ G _ _ Hb) as B. unfold blk_ok in *. simpl. exact B.
    + apply (g_blk _ _ _ G _ _ H2).
  - intros j y Hj. destruct (g_hdl _ _ _ G j y Hj) as (by_ & Hby & Oky).
    destruct (Nat.eqb_spec (hl y) l) as [Ey|Ney].
    + rewrite Ey in *. assert (by_ = b) by congruence. subst by_.
      exists (set_cells b cs'). split; [rewrite nth_upd_same; auto|].
      destruct Oky as (A & B & C & D & E). split; [exact A|]. split; [exact B|]. split; [|split].
      * intros H. unfold thin_ok in *. simpl. rewrite Hlen. auto.
      * intros H1 H2. simpl. auto.
      * intros H. simpl. rewrite Hlen. auto.
    + exists by_. split; auto. rewrite nth_upd_other; auto.
Qed.

(** ** table extension by one owner: pushing, or filling an empty slot *)
Definition ext (t t' : list (option handle)) (x' : handle) : Prop :=
  (forall l, owners t' l = (owners t l + own1 (Some x') l)%nat) /\
  (forall j y, nth_error t' j = Some (Some y) -> nth_error t j = Some (Some y) \/ y = x').

Lemma ext_push t x' : ext t (t ++ [Some x']) x'.
Proof.
  split.
  - intros l. apply owners_app.
  - intros j y Hj. destruct (Nat.lt_ge_cases j (length t)) as [L|L].
    + left. rewrite nth_error_app1 in Hj; auto.
    + right. rewrite nth_error_app2 in Hj; auto. destruct (j - length t)%nat as [|k]; simpl in Hj; [congruence|destruct k; discriminate].
Qed.

Lemma ext_fill t i x' : nth_error t i = Some None -> ext t (upd t i (Some x')) x'.
Proof.
  intros H. split.
  - intros l. pose proof (owners_upd t i None (Some x') l H) as O. simpl own1 in *. lia.
  - intros j y Hj. rewrite nth_upd in Hj. destruct (Nat.eqb_spec i j) as [->|].
    + right. destruct (Nat.ltb j (length t)); congruence.
    + left; auto.
Qed.

Lemma good_inc_ext hp u t t' i x l b x' :
  GoodC hp u t -> ext t t' x' -> nth_error t i = Some (Some x) -> hl x = l -> is_unique_kind (hk x) = false ->
  nth_error hp l = Some b -> b_cnt b <= 2 ^ 63 - 1 -> hl x' = l ->
  handle_ok x' (set_cnt b (b_cnt b + 1)) ->
  GoodC (upd hp l (set_cnt b (b_cnt b + 1))) u t'.
Proof.
  intros G [Eo Ee] Hi El Hu Hb Hc El' Hok'.
  destruct (handle_block _ _ _ _ _ G Hi) as (b0 & Hb0 & Al & Ok & Cn & Pos & Le). rewrite El in *.
  assert (b0 = b) by congruence. subst b0.
  pose proof (nth_some_lt _ _ _ Hb) as Hlt.
  constructor.
  - apply (g_ub _ _ _ G).
  - intros l2 b2 H2. rewrite nth_upd in H2. unfold blk_ok. rewrite Eo. simpl own1. rewrite El'.
    destruct (Nat.eqb_spec l l2) as [<-|Hne].
    + apply Nat.ltb_lt in Hlt. rewrite Hlt in H2. inversion H2; subst b2. simpl. rewrite Al.
      rewrite Cn. split; [lia|]. split; [lia|]. rewrite Cn in Hc. lia.
    + pose proof (g_blk _ _ _ G _ _ H2) as B. unfold blk_ok in *. replace (owners t l2 + 0)%nat with (owners t l2) by lia. exact B.
  - intros j y Hj. destruct (Ee j y Hj) as [Hy| ->].
    + destruct (g_hdl _ _ _ G j y Hy) as (by_ & Hby & Oky).
      destruct (Nat.eqb_spec (hl y) l) as [Ey|Ney].
      * rewrite Ey in *. assert (by_ = b) by congruence. subst by_.
        exists (set_cnt b (b_cnt b + 1)). split; [rewrite nth_upd_same; auto|].
        apply handle_ok_cnt; auto.
        destruct (is_unique_kind (hk y)) eqn:Uy; auto. exfalso.
        destruct Oky as (_ & U1 & _). specialize (U1 Uy).
        assert (i <> j) by (intros ->; rewrite Hi in Hy; inversion Hy; subst; congruence).
        pose proof (owners_ge2 t i j x y l H Hi Hy El Ey). rewrite Cn in U1. lia.
      * exists by_. split; auto. rewrite nth_upd_other; auto.
    + exists (set_cnt b (b_cnt b + 1)). rewrite El'. split; [rewrite nth_upd_same; auto|auto].
Qed.

Lemma good_new_ext hp u t t' nb x' :
  GoodC hp u t -> ext t t' x' -> b_alive nb = true -> b_cnt nb = 1 -> hl x' = length hp -> handle_ok x' nb ->
  GoodC (hp ++ [nb]) u t'.
Proof.
  intros G [Eo Ee] Al Cn El Ok.
  assert (Z : owners t (length hp) = 0%nat).
  { destruct (owners t (length hp)) eqn:E; auto. exfalso.
    destruct (owners_pos_ex t (length hp)) as (i & x & Hi & Ex); [lia|].
    destruct (g_hdl _ _ _ G i x Hi) as (b & Hb & _). apply nth_some_lt in Hb. lia. }
  constructor.
  - apply (g_ub _ _ _ G).
  - intros l b Hb. unfold blk_ok. rewrite Eo. simpl own1. rewrite El.
    destruct (Nat.lt_ge_cases l (length hp)) as [L|L].
    + rewrite nth_error_app1 in Hb; auto. pose proof (g_blk _ _ _ G _ _ Hb) as B.
      assert (Nat.eqb (length hp) l = false) by (apply Nat.eqb_neq; lia). rewrite H.
      unfold blk_ok in *. replace (owners t l + 0)%nat with (owners t l) by lia. exact B.
    + rewrite nth_error_app2 in Hb; auto. destruct (l - length hp)%nat as [|k] eqn:E; simpl in Hb; [|destruct k; discriminate].
      inversion Hb; subst b. assert (l = length hp) by lia. subst l. rewrite Nat.eqb_refl.
      rewrite Al, Cn, Z. simpl. split; [reflexivity|]. split; [lia|]. apply N.lt_le_incl. reflexivity.
  - intros j y Hj. destruct (Ee j y Hj) as [Hy| ->].
    + destruct (g_hdl _ _ _ G j y Hy) as (b & Hb & Oky).
      exists b. split; auto. rewrite nth_error_app1; auto. apply nth_some_lt in Hb; auto.
    + exists nb. rewrite El. split; auto. rewrite nth_error_app2; auto. rewrite Nat.sub_diag. reflexivity.
Qed.

Lemma upd_upd {A} (l : list A) i x y : upd (upd l i x) i y = upd l i y.
Proof. revert i; induction l as [|a l IH]; intros [|i]; simpl; auto. f_equal; apply IH. Qed.

(** two entries exchange their targets (mem::replace inside with_arc_mut) *)
Lemma good_swap hp u t i j x y x1 y1 :
  GoodC hp u t -> i <> j -> nth_error t i = Some (Some x) -> nth_error t j = Some (Some y) ->
  hl x1 = hl y -> hl y1 = hl x ->
  (forall b, nth_error hp (hl y) = Some b -> handle_ok y b -> handle_ok x1 b) ->
  (forall b, nth_error hp (hl x) = Some b -> handle_ok x b -> handle_ok y1 b) ->
  GoodC hp u (upd (upd t i (Some x1)) j (Some y1)).
Proof.
  intros G Hne Hi Hj E1 E2 Ok1 Ok2.
  assert (Hj' : nth_error (upd t i (Some x1)) j = Some (Some y)) by (rewrite nth_upd_other; auto).
  constructor.
  - apply (g_ub _ _ _ G).
  - intros l b Hb. pose proof (g_blk _ _ _ G _ _ Hb) as B. unfold blk_ok in *.
    pose proof (owners_upd t i (Some x) (Some x1) l Hi) as O1.
    pose proof (owners_upd (upd t i (Some x1)) j (Some y) (Some y1) l Hj') as O2.
    simpl own1 in *. rewrite E1 in O1. rewrite E2 in O2.
    replace (owners (upd (upd t i (Some x1)) j (Some y1)) l) with (owners t l) by lia. exact B.
  - intros k z Hk. rewrite nth_upd in Hk. destruct (Nat.eqb_spec j k) as [->|Nk].
    + destruct (Nat.ltb k (length (upd t i (Some x1)))); [|discriminate]. inversion Hk; subst z.
      destruct (g_hdl _ _ _ G i x Hi) as (b & Hb & Okx). exists b. rewrite E2. split; auto.
    + rewrite nth_upd in Hk. destruct (Nat.eqb_spec i k) as [->|Nk2].
      * destruct (Nat.ltb k (length t)); [|discriminate]. inversion Hk; subst z.
        destruct (g_hdl _ _ _ G j y Hj) as (b & Hb & Oky). exists b. rewrite E1. split; auto.
      * apply (g_hdl _ _ _ G k z Hk).
Qed.

(** the entry at [j] moves into the empty slot [i] (possibly changing kind) *)
Lemma good_mv hp u t i j y x1 :
  GoodC hp u t -> nth_error t i = Some None -> nth_error t j = Some (Some y) -> hl x1 = hl y ->
  (forall b, nth_error hp (hl y) = Some b -> handle_ok y b -> handle_ok x1 b) ->
  GoodC hp u (upd (upd t i (Some x1)) j None).
Proof.
  intros G Hi Hj E1 Ok1.
  assert (Hne : i <> j) by (intros ->; congruence).
  assert (Hj' : nth_error (upd t i (Some x1)) j = Some (Some y)) by (rewrite nth_upd_other; auto).
  constructor.
  - apply (g_ub _ _ _ G).
  - intros l b Hb. pose proof (g_blk _ _ _ G _ _ Hb) as B. unfold blk_ok in *.
    pose proof (owners_upd t i None (Some x1) l Hi) as O1.
    pose proof (owners_upd (upd t i (Some x1)) j (Some y) None l Hj') as O2.
    simpl own1 in *. rewrite E1 in O1.
    replace (owners (upd (upd t i (Some x1)) j None) l) with (owners t l) by lia. exact B.
  - intros k z Hk. rewrite nth_upd in Hk. destruct (Nat.eqb_spec j k) as [->|Nk].
    + destruct (Nat.ltb k (length (upd t i (Some x1)))); discriminate.
    + rewrite nth_upd in Hk. destruct (Nat.eqb_spec i k) as [->|Nk2].
      * destruct (Nat.ltb k (length t)); [|discriminate]. inversion Hk; subst z.
        destruct (g_hdl _ _ _ G j y Hj) as (b & Hb & Oky). exists b. rewrite E1. split; auto.
      * apply (g_hdl _ _ _ G k z Hk).
Qed.

(** ** what the primitives and library functions compute on a live block *)
Lemma mod_inc c : c <= 2 ^ 63 - 1 -> (c + 1) mod usize_mod = c + 1.
Proof. intros H. apply N.mod_small. unfold usize_mod. assert (2 ^ 63 < 2 ^ 64) by (apply N.pow_lt_mono_r; lia). lia. Qed.
Lemma mod_dec c : 1 <= c -> c <= 2 ^ 63 -> (c + usize_mod - 1) mod usize_mod = c - 1.
Proof.
  intros H1 H2. unfold usize_mod. assert (2 ^ 63 < 2 ^ 64) by (apply N.pow_lt_mono_r; lia).
  replace (c + 2 ^ 64 - 1) with ((c - 1) + 1 * 2 ^ 64) by lia.
  rewrite N.mod_add by lia. apply N.mod_small. lia.
Qed.

Section Exec.
Variables (hp : list block) (lg : list event) (u : bool) (nt : N).
Variables (l : loc) (b : block).
Hypothesis Hb : nth_error hp l = Some b.
Hypothesis Al : b_alive b = true.

Lemma get_blk_eq : get_blk l (mkM hp lg u nt) = (Ret b, mkM hp lg u nt).
Proof. unfold get_blk. simpl. rewrite Hb, Al. reflexivity. Qed.

Lemma load_eq s : load l s (mkM hp lg u nt) = (Ret (b_cnt b), mkM hp (EAtomic s (b_cnt b) :: lg) u nt).
Proof. unfold load, bind. rewrite get_blk_eq. reflexivity. Qed.

Lemma fetch_add_eq s : b_cnt b <= 2 ^ 63 - 1 ->
  fetch_add l s (mkM hp lg u nt) = (Ret (b_cnt b), mkM (upd hp l (set_cnt b (b_cnt b + 1))) (EAtomic s (b_cnt b) :: lg) u nt).
Proof. intros H. unfold fetch_add, bind. rewrite get_blk_eq. simpl. rewrite mod_inc; auto. Qed.

Lemma fetch_sub_eq s : 1 <= b_cnt b -> b_cnt b <= 2 ^ 63 ->
  fetch_sub l s (mkM hp lg u nt) = (Ret (b_cnt b), mkM (upd hp l (set_cnt b (b_cnt b - 1))) (EAtomic s (b_cnt b) :: lg) u nt).
Proof. intros H1 H2. unfold fetch_sub, bind. rewrite get_blk_eq. simpl. rewrite mod_dec; auto. Qed.

Lemma Arc_count_eq : Arc_count l (mkM hp lg u nt) = (Ret (b_cnt b), mkM hp (EAtomic SCount (b_cnt b) :: lg) u nt).
Proof. apply load_eq. Qed.
Lemma Arc_strong_count_eq : Arc_strong_count l (mkM hp lg u nt) = (Ret (b_cnt b), mkM hp (EAtomic SStrong (b_cnt b) :: lg) u nt).
Proof. apply load_eq. Qed.
Lemma Arc_is_unique_eq : Arc_is_unique l (mkM hp lg u nt) = (Ret (b_cnt b =? 1), mkM hp (EAtomic SCount (b_cnt b) :: lg) u nt).
Proof. unfold Arc_is_unique, bind. rewrite Arc_count_eq. reflexivity. Qed.

Lemma Arc_clone_eq : b_cnt b <= 2 ^ 63 ->
  Arc_clone l (mkM hp lg u nt) =
  if max_refcount <? b_cnt b
  then (Aborted, mkM (upd hp l (set_cnt b ((b_cnt b + 1) mod usize_mod))) (EAbort :: EAtomic SClone (b_cnt b) :: lg) u nt)
  else (Ret l, mkM (upd hp l (set_cnt b (b_cnt b + 1))) (EAtomic SClone (b_cnt b) :: lg) u nt).
Proof.
  intros H. unfold Arc_clone, bind, fetch_add, bind. rewrite get_blk_eq. simpl.
  destruct (max_refcount <? b_cnt b) eqn:E; [reflexivity|].
  apply N.ltb_ge in E. unfold max_refcount in E. rewrite mod_inc; auto.
Qed.
End Exec.

Definition dtor_events (vinit : bool) (cs : list (tok * bool)) : list event :=
  if vinit then map (fun c => EDtor (fst c)) cs else [].
Definition hdr_events (h : option tok) : list event := match h with Some t => [EDtor t] | None => [] end.

Lemma drop_cells_eq vinit cs hp lg u nt :
  (vinit = true -> all_init cs = true) ->
  drop_cells vinit cs (mkM hp lg u nt) = (Ret tt, mkM hp (rev (dtor_events vinit cs) ++ lg) u nt).
Proof.
  revert lg. induction cs as [|[t i] r IH]; intros lg H.
  - unfold dtor_events. destruct vinit; reflexivity.
  - simpl drop_cells. unfold bind. destruct vinit.
    + specialize (H eq_refl). simpl in H. apply andb_true_iff in H. destruct H as [Hi Hr]. simpl in Hi. subst i.
      unfold emit at 1. simpl. rewrite IH by auto. unfold dtor_events. simpl. rewrite <- app_assoc. reflexivity.
    + unfold ret at 1. rewrite IH by discriminate. reflexivity.
Qed.

Lemma drop_hdr_eq h hp lg u nt : drop_hdr h (mkM hp lg u nt) = (Ret tt, mkM hp (rev (hdr_events h) ++ lg) u nt).
Proof. destruct h; reflexivity. Qed.

(** [Arc_drop] on a live block with count in range *)
Lemma Arc_drop_eq hp lg u nt l b vinit :
  nth_error hp l = Some b -> b_alive b = true -> 1 <= b_cnt b -> b_cnt b <= 2 ^ 63 ->
  (vinit = true -> all_init (b_cells b) = true) ->
  Arc_drop l vinit (mkM hp lg u nt) =
  if b_cnt b =? 1
  then (Ret tt, mkM (upd hp l (set_dead (set_cnt b 0)))
                    (EDealloc l :: rev (dtor_events vinit (b_cells b)) ++ rev (hdr_events (b_hdr b)) ++ EAtomic SAcq 0 :: EAtomic SDec 1 :: lg) u nt)
  else (Ret tt, mkM (upd hp l (set_cnt b (b_cnt b - 1))) (EAtomic SDec (b_cnt b) :: lg) u nt).
Proof.
  intros Hb Al H1 H2 Hin. pose proof (nth_some_lt _ _ _ Hb) as Hlt.
  unfold Arc_drop, bind. rewrite (fetch_sub_eq hp lg u nt l b Hb Al SDec H1 H2).
  destruct (b_cnt b =? 1) eqn:E; [|reflexivity].
  apply N.eqb_eq in E. rewrite E. replace (1 - 1) with 0 by reflexivity.
  assert (Hb' : nth_error (upd hp l (set_cnt b 0)) l = Some (set_cnt b 0)) by (apply nth_upd_same; auto).
  rewrite (load_eq _ _ u nt l _ Hb' Al SAcq). simpl b_cnt.
  unfold box_free, bind. rewrite (get_blk_eq _ _ u nt l _ Hb' Al). simpl b_hdr. simpl b_cells.
  rewrite drop_hdr_eq, drop_cells_eq by auto. unfold emit, put_blk. simpl. rewrite upd_upd. reflexivity.
Qed.

(** ** kind-level facts *)
Lemma hkind_eqb_eq a b : hkind_eqb a b = true <-> a = b.
Proof. destruct a, b; split; intro H; try reflexivity; try discriminate H. Qed.

Definition needs_thin (k : hkind) (m : hmode) : bool :=
  match k with
  | KThin | KRawThin | KProt => true
  | KFat => match m with MShared => true | _ => false end
  | _ => false
  end.

Lemma needs_thin_iff k m :
  needs_thin k m = true <-> (k = KThin \/ k = KRawThin \/ k = KProt \/ (k = KFat /\ m = MShared)).
Proof.
  destruct k, m; simpl; split; intro H; try reflexivity; try discriminate H; auto 6;
    repeat (destruct H as [H|H]; try discriminate H); try (destruct H as [H1 H2]; discriminate).
Qed.

Lemma handle_ok_xfer k m k' m' l l' b :
  kind_cls k' = kind_cls k -> k <> KForgotten ->
  (is_unique_kind k' = true -> is_unique_kind k = true \/ b_cnt b = 1) ->
  (needs_thin k' m' = true -> needs_thin k m = true \/ thin_ok b) ->
  (uninit_view k' = false -> uninit_view k = false \/ all_init (b_cells b) = true) ->
  handle_ok (mkH k l m) b -> handle_ok (mkH k' l' m') b.
Proof.
  intros Hc Hf Hu Ht Hi (A & B & C & D & E). simpl in *.
  assert (Hf' : k' <> KForgotten).
  { intros ->. destruct A as [A|A]; [congruence|]. rewrite <- Hc in A. discriminate. }
  split; [|split; [|split; [|split]]]; simpl.
  - right. destruct A as [A|A]; [congruence|]. congruence.
  - intros U. destruct (Hu U) as [U1|U1]; auto.
  - intros T. apply needs_thin_iff in T. destruct (Ht T) as [T1|T1]; auto. apply needs_thin_iff in T1. auto.
  - intros I _. destruct (Hi I) as [I1|I1]; auto.
  - exact E.
Qed.

Definition optcls_eqb (a b : option bcls) : bool :=
  match a, b with
  | Some CS, Some CS | Some CB, Some CB | Some CHL, Some CHL | Some CHS, Some CHS | Some CSl, Some CSl | None, None => true
  | _, _ => false
  end.
Lemma optcls_eqb_eq a b : optcls_eqb a b = true -> a = b.
Proof. destruct a as [[]|], b as [[]|]; simpl; intros H; try reflexivity; discriminate. Qed.

Definition xfer_okb (k : hkind) (m : hmode) (k' : hkind) (m' : hmode) : bool :=
  optcls_eqb (kind_cls k') (kind_cls k) && negb (hkind_eqb k KForgotten)
  && (negb (is_unique_kind k') || is_unique_kind k)
  && (negb (needs_thin k' m') || needs_thin k m)
  && (uninit_view k' || negb (uninit_view k)).

Lemma xfer_ok k m k' m' l l' b : xfer_okb k m k' m' = true -> handle_ok (mkH k l m) b -> handle_ok (mkH k' l' m') b.
Proof.
  unfold xfer_okb. intros H. repeat (apply andb_true_iff in H; destruct H as [H ?]).
  apply handle_ok_xfer.
  - apply optcls_eqb_eq; auto.
  - intros ->. discriminate.
  - intros U. left. rewrite U in *. simpl in *. auto.
  - intros T. left. rewrite T in *. simpl in *. auto.
  - intros I. left. rewrite I in *. simpl in *. destruct (uninit_view k); auto; discriminate.
Qed.

Lemma xfer_ok' x k' m' l' b : xfer_okb (hk x) (hm x) k' m' = true -> handle_ok x b -> handle_ok (mkH k' l' m') b.
Proof. destruct x; apply xfer_ok. Qed.

(** rows of the conversion table other than into_thin transfer the invariant as they are *)
Lemma conv_table_ok :
  forallb (fun e => (fst (fst e) =? 7) || xfer_okb (snd (fst e)) MOwned (snd e) MOwned) conv_table = true.
Proof. reflexivity. Qed.

Lemma conv_target_ok c k k' l l' b :
  conv_target c k = Some k' -> c <> 7 -> handle_ok (mkH k l MOwned) b -> handle_ok (mkH k' l' MOwned) b.
Proof.
  unfold conv_target. intros H Hc.
  destruct (find _ conv_table) as [e|] eqn:F; [|discriminate]. inversion H; subst k'.
  apply find_some in F. destruct F as [Hin Hp]. apply andb_true_iff in Hp. destruct Hp as [Hp1 Hp2].
  apply N.eqb_eq in Hp1. apply hkind_eqb_eq in Hp2. subst.
  pose proof conv_table_ok as T. rewrite forallb_forall in T. specialize (T e Hin).
  apply orb_true_iff in T. destruct T as [T|T]; [apply N.eqb_eq in T; congruence|].
  apply xfer_ok; auto.
Qed.

Lemma conv_target_7 k k' : conv_target 7 k = Some k' -> k = KFat /\ k' = KThin.
Proof. destruct k; vm_compute; intros H; try discriminate H; inversion H; auto. Qed.

Lemma begin_table_ok :
  forallb (fun e => let '(_, k, (_, vk, vm)) := e in
                    xfer_okb k MOwned vk vm && xfer_okb k MShared vk vm && xfer_okb k MMut vk vm
                    && xfer_okb vk vm k MOwned && xfer_okb vk vm k MShared && xfer_okb vk vm k MMut) begin_table = true.
Proof. reflexivity. Qed.

Lemma begin_info_ok w k nm vk vm :
  begin_info w k = Some (nm, vk, vm) ->
  forall m, xfer_okb k m vk vm = true /\ xfer_okb vk vm k m = true.
Proof.
  unfold begin_info. intros H. destruct (find _ begin_table) as [e|] eqn:F; [|discriminate].
  apply find_some in F. destruct F as [Hin Hp]. apply andb_true_iff in Hp. destruct Hp as [Hp1 Hp2].
  apply hkind_eqb_eq in Hp2.
  pose proof begin_table_ok as T. rewrite forallb_forall in T. specialize (T e Hin).
  destruct e as [[w0 k0] [[nm0 vk0] vm0]]. simpl in *. inversion H; subst.
  repeat (apply andb_true_iff in T; destruct T as [T ?]).
  intros m; destruct m; auto.
Qed.

Lemma new_table_ok :
  forallb (fun e => let '(c, (k, cls, hashdr, init, fixed)) := e in
                    optcls_eqb (kind_cls k) (Some cls)
                    && (uninit_view k || init)
                    && (negb (needs_thin k MOwned) || negb (c =? 3))
                    && (match cls with CS | CB => match fixed with Some 1%nat => true | _ => false end | _ => true end)) new_table = true.
Proof. reflexivity. Qed.

(** ** small state lemmas *)
Lemma get_h_some s h x : get_h s h = Some x -> nth_error (tbl s) h = Some (Some x).
Proof. unfold get_h. destruct (nth_error (tbl s) h) as [[y|]|]; intros H; inversion H; auto. Qed.

Lemma inv_of_good s : Good s -> Inv s.
Proof. intros G _. exact G. Qed.
Lemma inv_dead s : dead s = true -> Inv s.
Proof. intros H H'. congruence. Qed.

Lemma good_same_hu s m1 : Good s -> heap m1 = heap (ms s) -> ub m1 = ub (ms s) -> Good (with_ms s m1).
Proof. unfold Good. simpl. intros G -> ->. exact G. Qed.

Lemma ArcBorrow_clone_arc_eq l m : ArcBorrow_clone_arc l m = Arc_clone l m.
Proof.
  unfold ArcBorrow_clone_arc, Arc_clone, bind. destruct (fetch_add l SClone m) as [[a| |] m']; auto.
  destruct (max_refcount <? a); reflexivity.
Qed.

Lemma clone_impl_spec k f k' :
  clone_impl k = Some (f, k') ->
  (forall l m, f l m = Arc_clone l m) /\ is_unique_kind k = false /\ forall m, xfer_okb k m k' MOwned = true.
Proof.
  destruct k; simpl; intros H; inversion H; subst; (split; [|split]); try reflexivity;
    try (intros l m; try apply ArcBorrow_clone_arc_eq; reflexivity); intros []; reflexivity.
Qed.

Lemma drop_impl_spec k f :
  drop_impl k = Some f ->
  exists vinit, (forall l m, f l m = Arc_drop l vinit m) /\ (vinit = true -> uninit_view k = false) /\ k <> KForgotten.
Proof.
  destruct k; simpl; intros H; inversion H; subst;
    (eexists; split; [intros l m; reflexivity|split; [simpl; try reflexivity; try discriminate|discriminate]]).
Qed.

Lemma run_lib_fst {A} s (m : M A) k :
  fst (run_lib s m k) =
  match m (ms s) with
  | (Ret a, m1) => fst (fst (k a (with_ms s m1)))
  | (Panicked, m1) => with_ms s m1
  | (Aborted, m1) => mkSt m1 (tbl s) (frames s) (skip s) true
  end.
Proof.
  unfold run_lib. destruct (m (ms s)) as [[a| |] m1]; auto.
  destruct (k a (with_ms s m1)) as [[s' st] rets]. reflexivity.
Qed.

(** ** every operation preserves the invariant *)
Ltac start := intros G Hd Hs; unfold step; rewrite Hd, Hs.
Ltac same := apply inv_of_good; assumption.

Section Step.
Variable d : bool.

Lemma step_clone s h : Good s -> dead s = false -> skip s = 0%nat -> Inv (fst (step d s (OClone h))).
Proof.
  start. destruct (get_h s h) as [x|] eqn:Hx; [|same].
  destruct (clone_impl (hk x)) as [[f k']|] eqn:Hc; [|same].
  destruct (clone_impl_spec _ _ _ Hc) as (Hf & Hu & Hx').
  rewrite run_lib_fst. rewrite Hf.
  apply get_h_some in Hx.
  destruct s as [[hp lg u nt] t fr sk dd]. unfold Good in G. simpl in *.
  destruct (handle_block _ _ _ _ _ G Hx) as (b & Hb & Al & Ok & Cn & Pos & Le).
  rewrite (Arc_clone_eq hp lg u nt (hl x) b Hb Al Le).
  destruct (max_refcount <? b_cnt b) eqn:E; [apply inv_dead; reflexivity|].
  apply N.ltb_ge in E. unfold max_refcount in E.
  apply inv_of_good. unfold Good. simpl.
  eapply good_inc_ext; eauto using ext_push.
  apply handle_ok_cnt; [destruct (is_unique_kind k') eqn:U; auto; specialize (Hx' (hm x)); unfold xfer_okb in Hx'; rewrite U, Hu in Hx'; simpl in Hx'; rewrite !andb_false_r in Hx'; discriminate|].
  eapply xfer_ok'; [apply (Hx' (hm x))|exact Ok].
Qed.

Lemma drop_good hp lg u nt t i x vinit :
  GoodC hp u t -> nth_error t i = Some (Some x) ->
  (vinit = true -> uninit_view (hk x) = false) -> hk x <> KForgotten ->
  exists hp' lg', Arc_drop (hl x) vinit (mkM hp lg u nt) = (Ret tt, mkM hp' lg' u nt) /\ GoodC hp' u (upd t i None) /\ length hp' = length hp.
Proof.
  intros G Hi Hv Hf.
  destruct (handle_block _ _ _ _ _ G Hi) as (b & Hb & Al & Ok & Cn & Pos & Le).
  assert (H1 : 1 <= b_cnt b) by lia.
  assert (Hin : vinit = true -> all_init (b_cells b) = true).
  { intros V. destruct Ok as (_ & _ & _ & D & _). apply D; auto. }
  rewrite (Arc_drop_eq hp lg u nt (hl x) b vinit Hb Al H1 Le Hin).
  destruct (b_cnt b =? 1) eqn:E.
  - apply N.eqb_eq in E. do 2 eexists. split; [reflexivity|]. split; [|apply upd_length].
    eapply good_free; eauto.
  - apply N.eqb_neq in E. do 2 eexists. split; [reflexivity|]. split; [|apply upd_length].
    eapply good_dec; eauto.
Qed.

Lemma step_drop s h : Good s -> dead s = false -> skip s = 0%nat -> Inv (fst (step d s (ODrop h))).
Proof.
  start. destruct (get_h s h) as [x|] eqn:Hx; [|same].
  destruct (drop_impl (hk x)) as [f|] eqn:Hdr; [|same].
  destruct (can_consume (hm x)); [|same].
  destruct (drop_impl_spec _ _ Hdr) as (vinit & Hf & Hv & Hnf).
  rewrite run_lib_fst. rewrite Hf. apply get_h_some in Hx.
  destruct s as [[hp lg u nt] t fr sk dd]. unfold Good in G. simpl in *.
  destruct (drop_good hp lg u nt t h x vinit G Hx Hv Hnf) as (hp' & lg' & E & G' & _).
  rewrite E. simpl. apply inv_of_good. exact G'.
Qed.

Lemma step_forget s h : Good s -> dead s = false -> skip s = 0%nat -> Inv (fst (step d s (OForget h))).
Proof.
  start. destruct (get_h s h) as [x|] eqn:Hx; [|same].
  destruct (can_consume (hm x) && negb (is_raw_kind (hk x)) && negb (hkind_eqb (hk x) KForgotten)); [|same].
  apply get_h_some in Hx. simpl. apply inv_of_good. unfold Good in *. simpl.
  eapply good_set; eauto. intros b Hb Al (A & B & C & D & E) _.
  split; [left; reflexivity|]. split; [discriminate|]. split.
  - simpl. intros [H|[H|[H|[H _]]]]; discriminate.
  - split; [simpl; congruence|exact E].
Qed.
End Step.

Section Step2.
Variable d : bool.

Lemma count_impl_spec acc k f : count_impl acc k = Some f -> exists site, forall l m, f l m = load l site m.
Proof.
  unfold count_impl. destruct (acc =? 0); [destruct (is_arc_kind k); intros H; inversion H; eexists; reflexivity|].
  destruct (acc =? 1).
  { destruct (is_arc_kind k); [intros H; inversion H; eexists; reflexivity|].
    destruct k; intros H; inversion H; eexists; reflexivity. }
  destruct (acc =? 2); [|discriminate].
  destruct k; intros H; inversion H; eexists; reflexivity.
Qed.

Lemma step_count s acc h : Good s -> dead s = false -> skip s = 0%nat -> Inv (fst (step d s (OCount acc h))).
Proof.
  start. destruct (get_h s h) as [x|] eqn:Hx; [|same].
  destruct (count_impl acc (hk x)) as [f|] eqn:Hc; [|same].
  destruct (count_impl_spec _ _ _ Hc) as (site & Hf).
  rewrite run_lib_fst, Hf. apply get_h_some in Hx.
  destruct s as [[hp lg u nt] t fr sk dd]. unfold Good in G. simpl in *.
  destruct (handle_block _ _ _ _ _ G Hx) as (b & Hb & Al & _).
  rewrite (load_eq hp lg u nt (hl x) b Hb Al). simpl. apply inv_of_good. exact G.
Qed.

Lemma step_is_unique s h : Good s -> dead s = false -> skip s = 0%nat -> Inv (fst (step d s (OIsUnique h))).
Proof.
  start. destruct (get_h s h) as [x|] eqn:Hx; [|same].
  destruct (is_arc_kind (hk x)); [|same].
  rewrite run_lib_fst. apply get_h_some in Hx.
  destruct s as [[hp lg u nt] t fr sk dd]. unfold Good in G. simpl in *.
  destruct (handle_block _ _ _ _ _ G Hx) as (b & Hb & Al & _).
  rewrite (Arc_is_unique_eq hp lg u nt (hl x) b Hb Al). simpl. apply inv_of_good. exact G.
Qed.

Lemma step_read s h : Good s -> dead s = false -> skip s = 0%nat -> Inv (fst (step d s (ORead h))).
Proof.
  start. destruct (get_h s h) as [x|] eqn:Hx; [|same].
  destruct (is_raw_kind (hk x) || hkind_eqb (hk x) KForgotten); [same|].
  rewrite run_lib_fst. apply get_h_some in Hx.
  destruct s as [[hp lg u nt] t fr sk dd]. unfold Good in G. simpl in *.
  destruct (handle_block _ _ _ _ _ G Hx) as (b & Hb & Al & _).
  rewrite (get_blk_eq hp lg u nt (hl x) b Hb Al). simpl. apply inv_of_good. exact G.
Qed.

Lemma step_ptr_of s h : Good s -> dead s = false -> skip s = 0%nat -> Inv (fst (step d s (OPtrOf h))).
Proof.
  start. destruct (get_h s h) as [x|] eqn:Hx; [|same].
  destruct (kind_cls (hk x)); same.
Qed.

Lemma step_union_acc s h : Good s -> dead s = false -> skip s = 0%nat -> Inv (fst (step d s (OUnionAcc h))).
Proof.
  start. destruct (get_h s h) as [x|] eqn:Hx; [|same].
  destruct (hk x); same.
Qed.

Lemma step_clone_arc s h : Good s -> dead s = false -> skip s = 0%nat -> Inv (fst (step d s (OCloneArc h))).
Proof.
  start. destruct (get_h s h) as [x|] eqn:Hx; [|same].
  apply get_h_some in Hx.
  assert (Hgen : forall k', is_unique_kind (hk x) = false -> xfer_okb (hk x) (hm x) k' MOwned = true -> is_unique_kind k' = false ->
     Inv (fst (run_lib s (Arc_clone (hl x)) (fun l s' => (push_h s' (mkH k' l MOwned), S_OK, [N.of_nat l]))))).
  { intros k' Hu Hxf Hu'. rewrite run_lib_fst.
    destruct s as [[hp lg u nt] t fr sk dd]. unfold Good in G. simpl in *.
    destruct (handle_block _ _ _ _ _ G Hx) as (b & Hb & Al & Ok & Cn & Pos & Le).
    rewrite (Arc_clone_eq hp lg u nt (hl x) b Hb Al Le).
    destruct (max_refcount <? b_cnt b) eqn:E; [apply inv_dead; reflexivity|].
    apply N.ltb_ge in E. unfold max_refcount in E.
    apply inv_of_good. unfold Good. simpl.
    eapply good_inc_ext; eauto using ext_push.
    apply handle_ok_cnt; auto. eapply xfer_ok'; eauto. }
  destruct (hk x) eqn:Hk; try same.
  all: try (unfold run_lib; rewrite ArcBorrow_clone_arc_eq; fold (run_lib s (Arc_clone (hl x)) (fun l s' => (push_h s' (mkH KArc l MOwned), S_OK, [N.of_nat l]))); apply Hgen; destruct (hm x); reflexivity).
  all: try (unfold run_lib; rewrite ArcBorrow_clone_arc_eq; fold (run_lib s (Arc_clone (hl x)) (fun l s' => (push_h s' (mkH KArcB l MOwned), S_OK, [N.of_nat l]))); apply Hgen; destruct (hm x); reflexivity).
  unfold OffsetArc_clone_arc. apply Hgen; destruct (hm x); reflexivity.
Qed.
End Step2.

Section Step3.
Variable d : bool.

Lemma assume_target_ok k k' : assume_target k = Some k' ->
  kind_cls k' = kind_cls k /\ k <> KForgotten /\ (is_unique_kind k' = true -> is_unique_kind k = true) /\
  (forall m m', needs_thin k' m' = true -> needs_thin k m = true).
Proof. destruct k; simpl; intros H; inversion H; subst; repeat split; try discriminate; auto. Qed.

Lemma step_conv s c h : Good s -> dead s = false -> skip s = 0%nat -> Inv (fst (step d s (OConv c h))).
Proof.
  start. destruct (get_h s h) as [x|] eqn:Hx; [|same].
  destruct (can_consume (hm x)) eqn:Hcc; simpl; [|same].
  assert (Hm : hm x = MOwned) by (destruct (hm x); auto; discriminate).
  apply get_h_some in Hx.
  destruct (c =? 16) eqn:E16.
  { destruct (assume_target (hk x)) as [k'|] eqn:Ha; [|same].
    rewrite run_lib_fst.
    destruct s as [[hp lg u nt] t fr sk dd]. unfold Good in G. simpl in *.
    destruct (handle_block _ _ _ _ _ G Hx) as (b & Hb & Al & Ok & Cn & Pos & Le).
    rewrite (get_blk_eq hp lg u nt (hl x) b Hb Al).
    destruct (all_init (b_cells b)) eqn:Hin; simpl; [|apply inv_of_good; exact G].
    apply inv_of_good. unfold Good. simpl.
    eapply good_set; eauto. intros b0 Hb0 _ Ok0 _. assert (b0 = b) by congruence. subst b0.
    destruct (assume_target_ok _ _ Ha) as (A1 & A2 & A3 & A4).
    destruct x as [k l m]. simpl in *. eapply handle_ok_xfer; eauto. }
  destruct (conv_target c (hk x)) as [k'|] eqn:Hct; [|same].
  destruct (c =? 7) eqn:E7.
  { apply N.eqb_eq in E7. subst c. destruct (conv_target_7 _ _ Hct) as [Hk ->].
    destruct s as [[hp lg u nt] t fr sk dd]. unfold Good in G. simpl in *.
    destruct (handle_block _ _ _ _ _ G Hx) as (b & Hb & Al & Ok & Cn & Pos & Le).
    unfold Arc_into_thin, bind. rewrite (get_blk_eq hp lg u nt (hl x) b Hb Al).
    destruct (b_reclen b =? N.of_nat (length (b_cells b))) eqn:Er.
    - unfold ret. simpl. apply inv_of_good. unfold Good. simpl.
      eapply good_set; eauto. intros b0 Hb0 _ Ok0 _. assert (b0 = b) by congruence. subst b0.
      destruct x as [k l m]. simpl in *. subst k.
      eapply handle_ok_xfer with (k := KFat) (m := m);
        [reflexivity | discriminate | discriminate | intros _; right; apply N.eqb_eq in Er; exact Er
         | intros _; left; reflexivity | exact Ok0].
    - assert (Hv : true = true -> uninit_view (hk x) = false) by (rewrite Hk; reflexivity).
      assert (Hnf : hk x <> KForgotten) by (rewrite Hk; discriminate).
      destruct (drop_good hp lg u nt t h x true G Hx Hv Hnf) as (hp' & lg' & E & G' & _).
      rewrite E. simpl. apply inv_of_good. exact G'. }
  apply N.eqb_neq in E7. simpl. apply inv_of_good. unfold Good in *. simpl.
  eapply good_set; eauto. intros b Hb _ Ok _.
  destruct x as [k l m]. simpl in *. subst m. eapply conv_target_ok; eauto.
Qed.

Lemma step_begin s w h : Good s -> dead s = false -> skip s = 0%nat -> Inv (fst (step d s (OBegin w h))).
Proof.
  start. destruct (get_h s h) as [x|] eqn:Hx; [|apply inv_of_good; exact G].
  destruct (begin_info w (hk x)) as [[[nm vk] vm]|] eqn:Hbi; [|apply inv_of_good; exact G].
  destruct (nm && negb (can_consume (hm x))); [apply inv_of_good; exact G|].
  apply get_h_some in Hx. simpl. apply inv_of_good. unfold Good in *. simpl.
  eapply good_set; eauto. intros b Hb _ Ok _.
  destruct (begin_info_ok _ _ _ _ _ Hbi (hm x)) as [X1 _]. eapply xfer_ok'; eauto.
Qed.

Lemma exit_frame_good s f : Good s -> Good (exit_frame s f).
Proof.
  intros G. unfold exit_frame. destruct (get_h s (f_h f)) as [x|] eqn:Hx; auto.
  destruct (begin_info (f_w f) (f_prev_k f)) as [[[nm vk] vm]|] eqn:Hbi; auto.
  destruct (hkind_eqb (hk x) vk && hmode_eqb (hm x) vm) eqn:E; auto.
  apply andb_true_iff in E. destruct E as [E1 E2]. apply hkind_eqb_eq in E1.
  assert (hm x = vm) by (destruct (hm x), vm; auto; discriminate).
  apply get_h_some in Hx. unfold Good in *. simpl.
  eapply good_set; eauto. intros b Hb _ Ok _.
  destruct (begin_info_ok _ _ _ _ _ Hbi (f_prev_m f)) as [_ X2]. subst. eapply xfer_ok'; eauto.
Qed.

Lemma exit_all_good fs : forall s, Good s -> Good (exit_all s fs).
Proof. induction fs as [|f r IH]; intros s G; simpl; auto. apply IH. apply exit_frame_good; auto. Qed.

Lemma exit_frame_dead s f : dead (exit_frame s f) = dead s.
Proof.
  unfold exit_frame. destruct (get_h s (f_h f)); auto. destruct (begin_info _ _) as [[[? ?] ?]|]; auto.
  destruct (_ && _); auto.
Qed.

Lemma step_end s : Good s -> dead s = false -> skip s = 0%nat -> Inv (fst (step d s OEnd)).
Proof.
  start. destruct (frames s) as [|f r] eqn:Hf; [same|]. simpl.
  apply inv_of_good. pose proof (exit_frame_good s f G) as G'. unfold Good in *. simpl. exact G'.
Qed.

Lemma step_panic s : Good s -> dead s = false -> skip s = 0%nat -> Inv (fst (step d s OPanic)).
Proof.
  start. destruct (frames s) as [|f r] eqn:Hf; [same|]. simpl fst.
  apply inv_of_good. pose proof (exit_all_good (f :: r) s G) as G'. unfold Good in *. simpl. exact G'.
Qed.

Lemma step_replace s h h' : Good s -> dead s = false -> skip s = 0%nat -> Inv (fst (step d s (OReplace h h'))).
Proof.
  start. destruct (get_h s h) as [x|] eqn:Hx; [|same]. destruct (get_h s h') as [y|] eqn:Hy; [|same].
  destruct (hk x) eqn:Kx; try same. destruct (hm x) eqn:Mx; try same.
  destruct (hk y) eqn:Ky; try same. destruct (can_consume (hm y)) eqn:Cy; try same.
  apply get_h_some in Hx. apply get_h_some in Hy.
  assert (Hne : h <> h') by (intros ->; rewrite Hx in Hy; inversion Hy; subst; congruence).
  simpl. apply inv_of_good. unfold Good in *. simpl.
  eapply good_swap; eauto; simpl; auto.
  - intros b Hb Ok. apply (xfer_ok' y KProt MMut (hl y) b); [rewrite Ky; destruct (hm y); reflexivity | exact Ok].
  - intros b Hb Ok. apply (xfer_ok' x KThin MOwned (hl x) b); [rewrite Kx, Mx; reflexivity | exact Ok].
Qed.

Lemma step_assign s h h' : Good s -> dead s = false -> skip s = 0%nat -> Inv (fst (step d s (OAssign h h'))).
Proof.
  start. destruct (get_h s h) as [x|] eqn:Hx; [|same]. destruct (get_h s h') as [y|] eqn:Hy; [|same].
  destruct (hk x) eqn:Kx; try same. destruct (hm x) eqn:Mx; try same.
  destruct (hk y) eqn:Ky; try same. destruct (can_consume (hm y)) eqn:Cy; try same.
  apply get_h_some in Hx. apply get_h_some in Hy.
  assert (Hne : h <> h') by (intros ->; rewrite Hx in Hy; inversion Hy; subst; congruence).
  rewrite run_lib_fst.
  destruct s as [[hp lg u nt] t fr sk dd]. unfold Good in G. simpl in *.
  assert (Hv : true = true -> uninit_view (hk x) = false) by (rewrite Kx; reflexivity).
  assert (Hnf : hk x <> KForgotten) by (rewrite Kx; discriminate).
  destruct (drop_good hp lg u nt t h x true G Hx Hv Hnf) as (hp' & lg' & E & G' & Hlen).
  rewrite E. simpl. apply inv_of_good. unfold Good. simpl.
  rewrite <- (upd_upd t h None (Some (mkH KProt (hl y) MMut))).
  apply (good_mv hp' u (upd t h None) h h' y (mkH KProt (hl y) MMut) G'); [| |reflexivity|].
  - apply nth_upd_same. apply nth_some_lt in Hx; auto.
  - rewrite nth_upd_other; eauto.
  - intros b Hb Ok. apply (xfer_ok' y KProt MMut (hl y) b); [rewrite Ky; destruct (hm y); reflexivity | exact Ok].
Qed.
End Step3.

(** ** writes, unique-gated operations, constructors *)
Lemma write_cell_spec cs i t :
  match write_cell cs i t with
  | Some (cs', c) => nth_error cs i = Some c /\ length cs' = length cs /\
                     (all_init cs = true -> all_init cs' = true /\ snd c = true)
  | None => nth_error cs i = None
  end.
Proof.
  revert i; induction cs as [|a r IH]; intros [|i]; simpl; auto.
  - split; auto. split; auto. intros H. apply andb_true_iff in H. destruct H as [H1 H2]. simpl. rewrite H2. auto.
  - specialize (IH i). destruct (write_cell r i t) as [[r' o]|]; auto.
    destruct IH as (A & B & C). split; auto. split; [simpl; congruence|].
    intros H. apply andb_true_iff in H. destruct H as [H1 H2]. destruct (C H2) as [C1 C2]. simpl. rewrite H1, C1. auto.
Qed.

Lemma write_tok_good hp lg u nt t l b i tk drop_old :
  GoodC hp u t -> nth_error hp l = Some b -> b_alive b = true ->
  (drop_old = true -> all_init (b_cells b) = true) -> (i < length (b_cells b))%nat ->
  exists hp' lg', write_tok l i tk drop_old (mkM hp lg u nt) = (Ret tt, mkM hp' lg' u nt) /\ GoodC hp' u t /\ length hp' = length hp.
Proof.
  intros G Hb Al Hd Hi. unfold write_tok, bind. rewrite (get_blk_eq hp lg u nt l b Hb Al).
  pose proof (write_cell_spec (b_cells b) i tk) as W.
  destruct (write_cell (b_cells b) i tk) as [[cs' [o oi]]|].
  - destruct W as (W1 & W2 & W3). unfold put_blk. simpl.
    assert (G' : GoodC (upd hp l (set_cells b cs')) u t).
    { eapply good_cells; eauto. intros H. apply W3; auto. }
    destruct drop_old.
    + destruct (W3 (Hd eq_refl)) as [_ W4]. simpl in W4. subst oi. unfold emit. simpl.
      do 2 eexists. split; [reflexivity|]. split; auto. apply upd_length.
    + unfold ret. do 2 eexists. split; [reflexivity|]. split; auto. apply upd_length.
  - apply nth_error_None in W. lia.
Qed.

Lemma write_through_good hp lg u nt t l b i drop_old :
  GoodC hp u t -> nth_error hp l = Some b -> b_alive b = true ->
  (drop_old = true -> all_init (b_cells b) = true) ->
  exists r hp' lg' nt', write_through l i drop_old (mkM hp lg u nt) = (Ret r, mkM hp' lg' u nt') /\ GoodC hp' u t /\ length hp' = length hp.
Proof.
  intros G Hb Al Hd. unfold write_through, has_cell, bind. rewrite (get_blk_eq hp lg u nt l b Hb Al). unfold ret at 1.
  destruct (nth_error (b_cells b) i) eqn:E.
  - unfold fresh. simpl.
    assert (Hi : (i < length (b_cells b))%nat) by (apply nth_error_Some; congruence).
    destruct (write_tok_good hp lg u (nt + 1) t l b i nt drop_old G Hb Al Hd Hi) as (hp' & lg' & Ew & G' & L).
    rewrite Ew. unfold ret. do 4 eexists. split; [reflexivity|]. auto.
  - do 4 eexists. split; [reflexivity|]. auto.
Qed.

Lemma try_unique_eq hp lg u nt l b dbg :
  nth_error hp l = Some b -> b_alive b = true ->
  exists lg', Arc_try_unique dbg l (mkM hp lg u nt) = (Ret (b_cnt b =? 1), mkM hp lg' u nt).
Proof.
  intros Hb Al. unfold Arc_try_unique, bind. rewrite (Arc_is_unique_eq hp lg u nt l b Hb Al).
  destruct (b_cnt b =? 1) eqn:E; [|eexists; reflexivity].
  unfold dbg_unique_assert. destruct dbg; [|eexists; reflexivity].
  unfold bind. rewrite (Arc_count_eq hp _ u nt l b Hb Al). rewrite E. eexists; reflexivity.
Qed.

Lemma dbg_assert_eq hp lg u nt l b dbg :
  nth_error hp l = Some b -> b_alive b = true -> b_cnt b = 1 ->
  exists lg', dbg_unique_assert dbg l (mkM hp lg u nt) = (Ret tt, mkM hp lg' u nt).
Proof.
  intros Hb Al E. unfold dbg_unique_assert. destruct dbg; [|eexists; reflexivity].
  unfold bind. rewrite (Arc_count_eq hp _ u nt l b Hb Al). rewrite E. eexists; reflexivity.
Qed.

Lemma box_take_eq hp lg u nt l b :
  nth_error hp l = Some b -> b_alive b = true ->
  box_take l (mkM hp lg u nt) = (Ret (b_cells b), mkM (upd hp l (set_dead b)) (EDealloc l :: lg) u nt).
Proof. intros Hb Al. unfold box_take, bind. rewrite (get_blk_eq hp lg u nt l b Hb Al). reflexivity. Qed.

Section Step4.
Variable d : bool.

Lemma step_get_mut s h : Good s -> dead s = false -> skip s = 0%nat -> Inv (fst (step d s (OGetMut h))).
Proof.
  start. destruct (get_h s h) as [x|] eqn:Hx; [|same].
  destruct (is_arc_kind (hk x) && can_mut (hm x) && negb (uninit_view (hk x))) eqn:C; [|same].
  apply andb_true_iff in C. destruct C as [C Cu]. apply negb_true_iff in Cu.
  rewrite run_lib_fst. apply get_h_some in Hx.
  destruct s as [[hp lg u nt] t fr sk dd]. unfold Good in G. simpl in *.
  destruct (handle_block _ _ _ _ _ G Hx) as (b & Hb & Al & Ok & Cn & Pos & Le).
  rewrite (Arc_is_unique_eq hp lg u nt (hl x) b Hb Al).
  destruct (b_cnt b =? 1); simpl; [|apply inv_of_good; exact G].
  destruct (hkind_eqb (hk x) KDyn) eqn:Ed; simpl; [apply inv_of_good; exact G|].
  assert (Hin : true = true -> all_init (b_cells b) = true).
  { intros _. destruct Ok as (_ & _ & _ & D & _). apply D; auto. intros E. rewrite E in C. discriminate. }
  destruct (write_through_good hp (EAtomic SCount (b_cnt b) :: lg) u nt t (hl x) b 0 true G Hb Al Hin) as (r & hp' & lg' & nt' & E & G' & _).
  rewrite E. simpl. apply inv_of_good. exact G'.
Qed.

Lemma step_get_unique s h : Good s -> dead s = false -> skip s = 0%nat -> Inv (fst (step d s (OGetUnique h))).
Proof.
  start. destruct (get_h s h) as [x|] eqn:Hx; [|same].
  destruct (hk x) eqn:Kx; try same. destruct (can_mut (hm x)); try same.
  rewrite run_lib_fst. apply get_h_some in Hx.
  destruct s as [[hp lg u nt] t fr sk dd]. unfold Good in G. simpl in *.
  destruct (handle_block _ _ _ _ _ G Hx) as (b & Hb & Al & Ok & Cn & Pos & Le).
  destruct (try_unique_eq hp lg u nt (hl x) b d Hb Al) as (lg1 & E1). rewrite E1.
  destruct (b_cnt b =? 1); simpl; [|apply inv_of_good; exact G].
  assert (Hin : true = true -> all_init (b_cells b) = true).
  { intros _. destruct Ok as (_ & _ & _ & D & _). apply D; rewrite Kx; auto; discriminate. }
  destruct (write_through_good hp lg1 u nt t (hl x) b 0 true G Hb Al Hin) as (r & hp' & lg' & nt' & E & G' & _).
  rewrite E. simpl. apply inv_of_good. exact G'.
Qed.

Lemma step_try_unique_gen s h :
  Good s -> dead s = false -> skip s = 0%nat ->
  Inv (fst (match get_h s h with
    | Some x =>
      match hk x, can_consume (hm x) with
      | KArc, true =>
        run_lib s (Arc_try_unique d (hl x))
          (fun u s' => if u then (set_h s' h (Some (mkH KUniq (hl x) MOwned)), S_OK, []) else declined s')
      | _, _ => (s, skip_obs)
      end
    | None => (s, skip_obs)
    end)).
Proof.
  intros G Hd Hs. destruct (get_h s h) as [x|] eqn:Hx; [|same].
  destruct (hk x) eqn:Kx; try same. destruct (can_consume (hm x)); try same.
  rewrite run_lib_fst. apply get_h_some in Hx.
  destruct s as [[hp lg u nt] t fr sk dd]. unfold Good in G. simpl in *.
  destruct (handle_block _ _ _ _ _ G Hx) as (b & Hb & Al & Ok & Cn & Pos & Le).
  destruct (try_unique_eq hp lg u nt (hl x) b d Hb Al) as (lg1 & E1). rewrite E1.
  destruct (b_cnt b =? 1) eqn:E; simpl; [|apply inv_of_good; exact G].
  apply N.eqb_eq in E. apply inv_of_good. unfold Good. simpl.
  eapply good_set; eauto. intros b0 Hb0 _ Ok0 _. assert (b0 = b) by congruence. subst b0.
  destruct x as [k l m]. simpl in *. subst k.
  eapply handle_ok_xfer with (k := KArc) (m := m);
    [reflexivity | discriminate | intros _; right; exact E | discriminate | intros _; left; reflexivity | exact Ok0].
Qed.

Lemma step_try_unique s h : Good s -> dead s = false -> skip s = 0%nat -> Inv (fst (step d s (OTryUnique h))).
Proof. start. apply step_try_unique_gen; auto. Qed.
Lemma step_try_from s h : Good s -> dead s = false -> skip s = 0%nat -> Inv (fst (step d s (OTryFrom h))).
Proof. start. apply step_try_unique_gen; auto. Qed.

(** taking the value out of a uniquely owned block: the table entry goes away, the block is released *)
Lemma take_good hp lg u nt t i x dbg :
  GoodC hp u t -> nth_error t i = Some (Some x) ->
  forall b, nth_error hp (hl x) = Some b -> b_cnt b = 1 ->
  exists lg', UniqueArc_into_inner dbg (hl x) (mkM hp lg u nt) = (Ret (b_cells b), mkM (upd hp (hl x) (set_dead b)) lg' u nt)
              /\ GoodC (upd hp (hl x) (set_dead b)) u (upd t i None).
Proof.
  intros G Hi b Hb E.
  destruct (handle_block _ _ _ _ _ G Hi) as (b0 & Hb0 & Al & Ok & Cn & Pos & Le).
  assert (b0 = b) by congruence. subst b0.
  unfold UniqueArc_into_inner, bind.
  destruct (dbg_assert_eq hp lg u nt (hl x) b dbg Hb Al E) as (lg1 & E1). rewrite E1.
  rewrite (box_take_eq hp lg1 u nt (hl x) b Hb Al). eexists. split; [reflexivity|].
  eapply good_free; eauto.
Qed.

Lemma step_try_unwrap s h : Good s -> dead s = false -> skip s = 0%nat -> Inv (fst (step d s (OTryUnwrap h))).
Proof.
  start. destruct (get_h s h) as [x|] eqn:Hx; [|same].
  destruct (hk x) eqn:Kx; try same. destruct (can_consume (hm x)); try same.
  rewrite run_lib_fst. apply get_h_some in Hx.
  destruct s as [[hp lg u nt] t fr sk dd]. unfold Good in G. simpl in *.
  destruct (handle_block _ _ _ _ _ G Hx) as (b & Hb & Al & Ok & Cn & Pos & Le).
  unfold Arc_try_unwrap, bind.
  destruct (try_unique_eq hp lg u nt (hl x) b d Hb Al) as (lg1 & E1). rewrite E1.
  destruct (b_cnt b =? 1) eqn:E; simpl; [|apply inv_of_good; exact G].
  apply N.eqb_eq in E.
  destruct (take_good hp lg1 u nt t h x d G Hx b Hb E) as (lg2 & E2 & G2). rewrite E2. unfold ret at 1.
  assert (Hin : true = true -> all_init (b_cells b) = true).
  { intros _. destruct Ok as (_ & _ & _ & D & _). apply D; rewrite Kx; auto; discriminate. }
  rewrite drop_cells_eq by auto. simpl. apply inv_of_good. exact G2.
Qed.

Lemma step_into_inner s h : Good s -> dead s = false -> skip s = 0%nat -> Inv (fst (step d s (OIntoInner h))).
Proof.
  start. destruct (get_h s h) as [x|] eqn:Hx; [|same].
  destruct (hk x) eqn:Kx; try same. destruct (can_consume (hm x)); try same.
  rewrite run_lib_fst. apply get_h_some in Hx.
  destruct s as [[hp lg u nt] t fr sk dd]. unfold Good in G. simpl in *.
  destruct (handle_block _ _ _ _ _ G Hx) as (b & Hb & Al & Ok & Cn & Pos & Le).
  assert (E : b_cnt b = 1) by (destruct Ok as (_ & U & _); apply U; rewrite Kx; reflexivity).
  unfold bind.
  destruct (take_good hp lg u nt t h x d G Hx b Hb E) as (lg2 & E2 & G2). rewrite E2.
  assert (Hin : true = true -> all_init (b_cells b) = true).
  { intros _. destruct Ok as (_ & _ & _ & D & _). apply D; rewrite Kx; auto; discriminate. }
  rewrite drop_cells_eq by auto. simpl. apply inv_of_good. exact G2.
Qed.

Lemma step_write_slot s h i : Good s -> dead s = false -> skip s = 0%nat -> Inv (fst (step d s (OWriteSlot h i))).
Proof.
  start. destruct (get_h s h) as [x|] eqn:Hx; [|same]. apply get_h_some in Hx.
  assert (Hgen : forall j, Inv (fst (run_lib s (write_through (hl x) j false) (fun (_ : bool) s' => (s', S_OK, []))))).
  { intros j. rewrite run_lib_fst.
    destruct s as [[hp lg u nt] t fr sk dd]. unfold Good in G. simpl in *.
    destruct (handle_block _ _ _ _ _ G Hx) as (b & Hb & Al & Ok & Cn & Pos & Le).
    destruct (write_through_good hp lg u nt t (hl x) b j false G Hb Al) as (r & hp' & lg' & nt' & E & G' & _); [discriminate|].
    rewrite E. simpl. apply inv_of_good. exact G'. }
  destruct (hk x); try same; destruct (can_mut (hm x)); try same; apply Hgen.
Qed.

Lemma step_uniq_mut s h i : Good s -> dead s = false -> skip s = 0%nat -> Inv (fst (step d s (OUniqMut h i))).
Proof.
  start. destruct (get_h s h) as [x|] eqn:Hx; [|same]. apply get_h_some in Hx.
  assert (Hgen : forall j, uninit_view (hk x) = false -> hk x <> KForgotten ->
     Inv (fst (run_lib s (write_through (hl x) j true) (fun (_ : bool) s' => (s', S_OK, []))))).
  { intros j Hu Hf. rewrite run_lib_fst.
    destruct s as [[hp lg u nt] t fr sk dd]. unfold Good in G. simpl in *.
    destruct (handle_block _ _ _ _ _ G Hx) as (b & Hb & Al & Ok & Cn & Pos & Le).
    assert (Hin : true = true -> all_init (b_cells b) = true).
    { intros _. destruct Ok as (_ & _ & _ & D & _). apply D; auto. }
    destruct (write_through_good hp lg u nt t (hl x) b j true G Hb Al Hin) as (r & hp' & lg' & nt' & E & G' & _).
    rewrite E. simpl. apply inv_of_good. exact G'. }
  destruct (hk x) eqn:Kx; try same; destruct (can_mut (hm x)); try same; apply Hgen; try reflexivity; discriminate.
Qed.
End Step4.

Lemma fresh_cells_spec n init hp lg u nt :
  exists cs nt', fresh_cells n init (mkM hp lg u nt) = (Ret cs, mkM hp lg u nt') /\ length cs = n /\ (init = true -> all_init cs = true).
Proof.
  revert nt. induction n as [|n IH]; intros nt.
  - exists [], nt. simpl. auto.
  - simpl fresh_cells. unfold bind. destruct init.
    + unfold fresh at 1. simpl. destruct (IH (nt + 1)) as (cs & nt' & E & L & I). rewrite E. unfold ret.
      do 2 eexists. split; [reflexivity|]. simpl. split; [congruence|]. intros _. rewrite I; auto.
    + unfold ret at 1. destruct (IH nt) as (cs & nt' & E & L & I). rewrite E. unfold ret.
      do 2 eexists. split; [reflexivity|]. simpl. split; [congruence|discriminate].
Qed.

Lemma handle_eta_ok x b : handle_ok x b -> handle_ok (mkH (hk x) (hl x) (hm x)) b.
Proof. destruct x; auto. Qed.

Lemma single_cell b : length (b_cells b) = 1%nat -> all_init (b_cells b) = true -> exists t, b_cells b = [(t, true)].
Proof.
  destruct (b_cells b) as [|[t i] [|c r]]; simpl; try discriminate. intros _ H.
  apply andb_true_iff in H. destruct H as [H _]. simpl in H. subst. eauto.
Qed.

(** [Arc::make_mut]'s replacement step on a handle of class CS (Arc<T> or the Arc inside OffsetArc::make_mut) *)
Lemma make_mut_good hp lg u nt t i x pf :
  GoodC hp u t -> nth_error t i = Some (Some x) -> (hk x = KArc \/ hk x = KOff) ->
  match Arc_make_mut (hl x) pf (mkM hp lg u nt) with
  | (Ret l', m') =>
      ub m' = u /\ GoodC (heap m') u (upd t i (Some (mkH (hk x) l' (hm x)))) /\
      exists b', nth_error (heap m') l' = Some b' /\ b_alive b' = true /\ all_init (b_cells b') = true /\ b_cnt b' = 1
  | (Panicked, m') => heap m' = hp /\ ub m' = u
  | (Aborted, _) => False
  end.
Proof.
  intros G Hi Hk.
  destruct (handle_block _ _ _ _ _ G Hi) as (b & Hb & Al & Ok & Cn & Pos & Le).
  assert (Huv : uninit_view (hk x) = false) by (destruct Hk as [-> | ->]; reflexivity).
  assert (Hnf : hk x <> KForgotten) by (destruct Hk as [-> | ->]; discriminate).
  assert (Hcls : b_cls b = CS).
  { destruct Ok as ([A|A] & _); [congruence|]. destruct Hk as [K|K]; rewrite K in A; simpl in A; congruence. }
  assert (Hin : all_init (b_cells b) = true) by (destruct Ok as (_ & _ & _ & D & _); auto).
  assert (Hlen : length (b_cells b) = 1%nat) by (destruct Ok as (_ & _ & _ & _ & E); auto).
  destruct (single_cell b Hlen Hin) as (tk & Hcells).
  unfold Arc_make_mut, bind. rewrite (Arc_is_unique_eq hp lg u nt (hl x) b Hb Al).
  destruct (b_cnt b =? 1) eqn:E.
  - apply N.eqb_eq in E. unfold ret. simpl. split; auto. split.
    + eapply good_set; eauto; intros b0 Hb0 _ Ok0 _; apply handle_eta_ok in Ok0; exact Ok0.
    + exists b. auto.
  - apply N.eqb_neq in E.
    unfold call_clone, bind. rewrite (get_blk_eq hp _ u nt (hl x) b Hb Al). rewrite Hcells.
    destruct pf; [unfold panic; simpl; auto|].
    unfold fresh, emit, ret, Arc_new, alloc_block. simpl.
    set (nb := mkB 1 true CS None 0 [(nt, true)]).
    assert (Hb2 : nth_error (hp ++ [nb]) (hl x) = Some b) by (rewrite nth_error_app1; auto; apply nth_some_lt in Hb; auto).
    assert (H1 : 1 <= b_cnt b) by lia.
    rewrite (Arc_drop_eq (hp ++ [nb]) _ u (nt + 1) (hl x) b true Hb2 Al H1 Le (fun _ => Hin)).
    apply N.eqb_neq in E. rewrite E. apply N.eqb_neq in E. simpl.
    split; auto. split.
    + rewrite upd_app_l by (apply nth_some_lt in Hb; auto).
      rewrite <- (upd_upd t i None (Some (mkH (hk x) (length hp) (hm x)))).
      pose proof (good_dec hp u t i x (hl x) b G Hi eq_refl Hb E) as G1.
      eapply good_new_ext; [exact G1| apply ext_fill; apply nth_upd_same; apply nth_some_lt in Hi; auto | reflexivity | reflexivity | simpl; symmetry; apply upd_length | ].
      split; [right; destruct Hk as [-> | ->]; reflexivity|]. split; [intros _; reflexivity|]. split.
      * simpl. intros [H|[H|[H|[H _]]]]; destruct Hk as [K|K]; rewrite K in H; discriminate.
      * split; [reflexivity|reflexivity].
    + exists nb. split.
      * rewrite nth_upd_other by (apply nth_some_lt in Hb; lia). rewrite nth_error_app2 by lia. rewrite Nat.sub_diag. reflexivity.
      * auto.
Qed.

Section Step5.
Variable d : bool.

Lemma make_mut_then_write hp lg u nt t i x pf (pre : loc -> M unit) :
  GoodC hp u t -> nth_error t i = Some (Some x) -> (hk x = KArc \/ hk x = KOff) ->
  (forall hp1 lg1 nt1 l1 b1, nth_error hp1 l1 = Some b1 -> b_alive b1 = true -> b_cnt b1 = 1 ->
       exists lg2, pre l1 (mkM hp1 lg1 u nt1) = (Ret tt, mkM hp1 lg2 u nt1)) ->
  match (l' <- Arc_make_mut (hl x) pf ;; pre l' ;;; write_through l' 0 true ;;; ret l') (mkM hp lg u nt) with
  | (Ret l', m') => ub m' = u /\ GoodC (heap m') u (upd t i (Some (mkH (hk x) l' (hm x))))
  | (Panicked, m') => heap m' = hp /\ ub m' = u
  | (Aborted, _) => False
  end.
Proof.
  intros G Hi Hk Hpre. unfold bind at 1.
  pose proof (make_mut_good hp lg u nt t i x pf G Hi Hk) as MM.
  destruct (Arc_make_mut (hl x) pf (mkM hp lg u nt)) as [[l'| |] [hp1 lg1 u1 nt1]]; simpl in MM; auto.
  destruct MM as (-> & G1 & b' & Hb' & Al' & In' & C').
  unfold bind at 1. destruct (Hpre hp1 lg1 nt1 l' b' Hb' Al' C') as (lg2 & E2). rewrite E2.
  unfold bind at 1.
  destruct (write_through_good hp1 lg2 u nt1 _ l' b' 0 true G1 Hb' Al' (fun _ => In')) as (r & hp2 & lg3 & nt3 & E3 & G3 & _).
  rewrite E3. unfold ret. simpl. auto.
Qed.

Lemma step_make_mut s h pf : Good s -> dead s = false -> skip s = 0%nat -> Inv (fst (step d s (OMakeMut h pf))).
Proof.
  start. destruct (get_h s h) as [x|] eqn:Hx; [|same]. apply get_h_some in Hx.
  assert (Hgen : (hk x = KArc \/ hk x = KOff) ->
     Inv (fst (run_lib s (l' <- Arc_make_mut (hl x) pf ;; write_through l' 0 true ;;; ret l')
                  (fun l' s' => (set_h s' h (Some (mkH (hk x) l' (hm x))), S_OK, [N.of_nat l']))))).
  { intros Hk. rewrite run_lib_fst.
    destruct s as [[hp lg u nt] t fr sk dd]. unfold Good in G. simpl in *.
    pose proof (make_mut_then_write hp lg u nt t h x pf (fun _ => ret tt) G Hx Hk) as MW.
    assert (Heq : forall m, (l' <- Arc_make_mut (hl x) pf;; write_through l' 0 true;;; ret l') m =
                            (l' <- Arc_make_mut (hl x) pf;; (fun _ => ret tt) l';;; write_through l' 0 true;;; ret l') m).
    { intros m. unfold bind. destruct (Arc_make_mut (hl x) pf m) as [[?| |] ?]; reflexivity. }
    rewrite Heq.
    assert (Hpre : forall hp1 lg1 nt1 (l1 : loc) (b1 : block), nth_error hp1 l1 = Some b1 -> b_alive b1 = true -> b_cnt b1 = 1 ->
               exists lg2, (fun _ : loc => @ret unit tt) l1 (mkM hp1 lg1 u nt1) = (Ret tt, mkM hp1 lg2 u nt1))
      by (intros; eexists; reflexivity).
    specialize (MW Hpre).
    match type of MW with match ?e with _ => _ end => destruct e as [[l'| |] [hp1 lg1 u1 nt1]] end; simpl in *.
    - destruct MW as [E1 G1]. subst u1. apply inv_of_good. exact G1.
    - destruct MW as [E1 E2]. subst. apply inv_of_good. exact G.
    - destruct MW. }
  destruct (hk x) eqn:Kx; try same; destruct (can_mut (hm x)); try same; apply Hgen; auto.
Qed.

Lemma step_make_unique s h pf : Good s -> dead s = false -> skip s = 0%nat -> Inv (fst (step d s (OMakeUnique h pf))).
Proof.
  start. destruct (get_h s h) as [x|] eqn:Hx; [|same]. apply get_h_some in Hx.
  destruct (hk x) eqn:Kx; try same; destruct (can_mut (hm x)); try same.
  rewrite run_lib_fst.
  destruct s as [[hp lg u nt] t fr sk dd]. unfold Good in G. simpl in *.
  assert (Hk : hk x = KArc \/ hk x = KOff) by auto.
  pose proof (make_mut_then_write hp lg u nt t h x pf (dbg_unique_assert d) G Hx Hk) as MW.
  assert (Hpre : forall hp1 lg1 nt1 (l1 : loc) (b1 : block), nth_error hp1 l1 = Some b1 -> b_alive b1 = true -> b_cnt b1 = 1 ->
             exists lg2, dbg_unique_assert d l1 (mkM hp1 lg1 u nt1) = (Ret tt, mkM hp1 lg2 u nt1))
    by (intros; eapply dbg_assert_eq; eauto).
  specialize (MW Hpre).
  match type of MW with match ?e with _ => _ end => destruct e as [[l'| |] [hp1 lg1 u1 nt1]] end; simpl in *.
  - destruct MW as [E1 G1]. subst u1. rewrite Kx in G1. apply inv_of_good. exact G1.
  - destruct MW as [E1 E2]. subst. apply inv_of_good. exact G.
  - destruct MW.
Qed.
End Step5.

Section Step6.
Variable d : bool.

Lemma step_new s c n r : Good s -> dead s = false -> skip s = 0%nat -> Inv (fst (step d s (ONew c n r))).
Proof.
  start. unfold do_new. destruct (64 <? n); [same|].
  destruct (new_info c) as [[[[[k cls] hashdr] init] fixed]|] eqn:Hn; [|same].
  unfold new_info in Hn. destruct (find _ new_table) as [e|] eqn:F; [|discriminate].
  apply find_some in F. destruct F as [Hin Hp]. apply N.eqb_eq in Hp.
  pose proof new_table_ok as T. rewrite forallb_forall in T. specialize (T e Hin).
  destruct e as [c0 v]. simpl in Hp. subst c0. simpl in Hn. inversion Hn; subst v. clear Hn.
  repeat (apply andb_true_iff in T; destruct T as [T ?]). clear Hin.
  rewrite run_lib_fst.
  destruct s as [[hp lg u nt] t fr sk dd]. unfold Good in G. simpl in *.
  set (len := match fixed with Some x => x | None => N.to_nat n end).
  set (rl := if c =? 3 then r else N.of_nat len).
  assert (exists ho cs nt2,
    (h <- (if hashdr then t0 <- fresh;; ret (Some t0) else ret None);; cs <- fresh_cells len init;; alloc_block cls h rl cs) (mkM hp lg u nt)
     = (Ret (length hp), mkM (hp ++ [mkB 1 true cls ho rl cs]) (EAlloc (length hp) :: lg) u nt2)
    /\ length cs = len /\ (init = true -> all_init cs = true)) as (ho & cs & nt2 & E & L & I).
  { unfold bind at 1. destruct hashdr.
    - unfold bind at 1, fresh at 1, ret at 1. simpl.
      destruct (fresh_cells_spec len init hp lg u (nt + 1)) as (cs & nt2 & E & L & I).
      unfold bind. rewrite E. unfold alloc_block. simpl. exists (Some nt), cs, nt2. auto.
    - unfold ret at 1.
      destruct (fresh_cells_spec len init hp lg u nt) as (cs & nt2 & E & L & I).
      unfold bind. rewrite E. unfold alloc_block. simpl. exists None, cs, nt2. auto. }
  rewrite E. simpl. apply inv_of_good. unfold Good. simpl.
  eapply good_new; eauto; try reflexivity.
  split; [right; apply optcls_eqb_eq; auto|]. split; [intros _; reflexivity|]. split; [|split].
  - simpl. intros Ht. apply needs_thin_iff in Ht. unfold thin_ok. simpl. rewrite L. unfold rl.
    rewrite Ht in *. simpl in *. destruct (c =? 3); [discriminate|reflexivity].
  - simpl. intros Hu _. apply I. rewrite Hu in *. simpl in *. auto.
  - simpl. intros Hc. rewrite L. unfold len. destruct Hc as [-> | ->]; destruct fixed as [[|[|?]]|]; try discriminate; reflexivity.
Qed.

Lemma step_deprecated_write s h i : Good s -> dead s = false -> skip s = 0%nat -> Inv (fst (step d s (ODeprecatedWrite h i))).
Proof.
  start. destruct (get_h s h) as [x|] eqn:Hx; [|same]. apply get_h_some in Hx.
  destruct (hk x) eqn:Kx; try same; destruct (can_mut (hm x)); try same; rewrite run_lib_fst;
    destruct s as [[hp lg u nt] t fr sk dd]; unfold Good in G; simpl in *;
    destruct (handle_block _ _ _ _ _ G Hx) as (b & Hb & Al & Ok & Cn & Pos & Le).
  - (* KMA *)
    unfold bind at 1, fresh at 1. simpl. unfold bind at 1.
    destruct (try_unique_eq hp lg u (nt + 1) (hl x) b d Hb Al) as (lg1 & E1). rewrite E1.
    destruct (b_cnt b =? 1).
    + assert (Hlen : (0 < length (b_cells b))%nat).
      { destruct Ok as ([A|A] & _ & _ & _ & E); [congruence|]. rewrite Kx in A. simpl in A. inversion A as [A']. rewrite E; auto. }
      destruct (write_tok_good hp lg1 u (nt + 1) t (hl x) b 0 nt false G Hb Al) as (hp' & lg' & E & G' & _); [discriminate|auto|].
      rewrite E. simpl. apply inv_of_good. exact G'.
    + unfold bind. rewrite (Arc_count_eq hp lg1 u (nt + 1) (hl x) b Hb Al). simpl. apply inv_of_good. exact G.
  - (* KMAS *)
    unfold bind at 1.
    destruct (try_unique_eq hp lg u nt (hl x) b d Hb Al) as (lg1 & E1). rewrite E1.
    destruct (b_cnt b =? 1).
    + unfold bind.
      destruct (write_through_good hp lg1 u nt t (hl x) b i false G Hb Al) as (r & hp' & lg' & nt' & E & G' & _); [discriminate|].
      rewrite E. simpl. apply inv_of_good. exact G'.
    + unfold bind. rewrite (Arc_count_eq hp lg1 u nt (hl x) b Hb Al). simpl. apply inv_of_good. exact G.
Qed.

Lemma step_unwrap_or_clone s h pf : Good s -> dead s = false -> skip s = 0%nat -> Inv (fst (step d s (OUnwrapOrClone h pf))).
Proof.
  start. destruct (get_h s h) as [x|] eqn:Hx; [|same]. apply get_h_some in Hx.
  destruct (hk x) eqn:Kx; try same; destruct (can_consume (hm x)); try same.
  destruct s as [[hp lg u nt] t fr sk dd]; unfold Good in G; simpl in *.
  destruct (handle_block _ _ _ _ _ G Hx) as (b & Hb & Al & Ok & Cn & Pos & Le).
  assert (Hin : all_init (b_cells b) = true) by (destruct Ok as (_ & _ & _ & D & _); apply D; rewrite Kx; auto; discriminate).
  assert (Hlen : length (b_cells b) = 1%nat).
  { destruct Ok as ([A|A] & _ & _ & _ & E); [congruence|]. rewrite Kx in A. simpl in A. inversion A as [A']. rewrite E; auto. }
  destruct (single_cell b Hlen Hin) as (tk & Hcells).
  unfold bind at 1. unfold Arc_unwrap_or_clone. unfold bind at 1. unfold Arc_try_unwrap. unfold bind at 1.
  destruct (try_unique_eq hp lg u nt (hl x) b d Hb Al) as (lg1 & E1). rewrite E1.
  destruct (b_cnt b =? 1) eqn:E.
  - apply N.eqb_eq in E. unfold bind at 1.
    destruct (take_good hp lg1 u nt t h x d G Hx b Hb E) as (lg2 & E2 & G2). rewrite E2.
    unfold ret at 1. rewrite Hcells. unfold ret at 1. unfold bind, emit, ret. simpl.
    apply inv_of_good. exact G2.
  - unfold ret at 1.
    unfold call_clone, bind at 1. rewrite (get_blk_eq hp lg1 u nt (hl x) b Hb Al). rewrite Hcells.
    assert (Hv : true = true -> uninit_view (hk x) = false) by (rewrite Kx; reflexivity).
    assert (Hnf : hk x <> KForgotten) by (rewrite Kx; discriminate).
    destruct pf.
    + unfold panic at 1. unfold bind at 1.
      destruct (drop_good hp lg1 u nt t h x true G Hx Hv Hnf) as (hp' & lg' & E' & G' & _). rewrite E'.
      unfold panic. simpl. apply inv_of_good. exact G'.
    + unfold bind at 1, fresh at 1. simpl. unfold bind at 1, emit at 1. simpl. unfold ret at 1. unfold bind at 1.
      destruct (drop_good hp (EClone tk nt :: lg1) u (nt + 1) t h x true G Hx Hv Hnf) as (hp' & lg' & E' & G' & _). rewrite E'.
      unfold ret at 1. unfold bind, emit, ret. simpl. apply inv_of_good. exact G'.
Qed.
End Step6.

(** ** the invariant holds after every operation of every history *)
Theorem step_inv d s o : Inv s -> Inv (fst (step d s o)).
Proof.
  intros I. destruct (dead s) eqn:Hd.
  { unfold step. rewrite Hd. simpl. apply inv_dead; auto. }
  specialize (I Hd).
  destruct (skip s) as [|k] eqn:Hs.
  2:{ unfold step. rewrite Hd, Hs. destruct o; simpl; intros _; exact I. }
  destruct o.
  - apply step_new; auto.
  - apply step_clone; auto.
  - apply step_drop; auto.
  - apply step_forget; auto.
  - apply step_conv; auto.
  - apply step_clone_arc; auto.
  - apply step_count; auto.
  - apply step_is_unique; auto.
  - apply step_read; auto.
  - apply step_ptr_of; auto.
  - apply step_get_mut; auto.
  - apply step_get_unique; auto.
  - apply step_try_unique; auto.
  - apply step_try_unwrap; auto.
  - apply step_try_from; auto.
  - apply step_make_mut; auto.
  - apply step_make_unique; auto.
  - apply step_unwrap_or_clone; auto.
  - apply step_into_inner; auto.
  - apply step_deprecated_write; auto.
  - apply step_write_slot; auto.
  - apply step_uniq_mut; auto.
  - apply step_begin; auto.
  - apply step_end; auto.
  - apply step_panic; auto.
  - apply step_replace; auto.
  - apply step_assign; auto.
  - apply step_union_acc; auto.
  - unfold step. rewrite Hd, Hs. simpl. apply inv_of_good; auto.
Qed.

Theorem run_inv d ops : forall s, Inv s -> Inv (fst (run d s ops)).
Proof.
  induction ops as [|o r IH]; intros s I; simpl; auto.
  pose proof (step_inv d s o I) as I1. destruct (step d s o) as [s1 ob]. simpl in I1.
  specialize (IH s1 I1). destruct (run d s1 r) as [s2 obs]. exact IH.
Qed.

Definition reachable (s : st) : Prop := exists d ops, s = fst (run d init_st ops).

Theorem reachable_inv s : reachable s -> Inv s.
Proof. intros (d & ops & ->). apply run_inv. apply inv_of_good. apply good_init. Qed.
