(** * Ctor.v — the constructor machine: scripted iterators (per-call [len()] / [size_hint()] answers, a panic at the
    k-th [next()]), vectors, boxes; what the constructors build, leak and drop.

    Tokens are numbers; the header is token 0 and the items are tokens 1..n (the order in which the harness
    creates them).  Model only; proofs in CtorProofs.v. *)
From Coq Require Import NArith List Bool Arith.
Import ListNotations.
Open Scope N_scope.

Definition tok := N.

Record script := mkS {
  sc_lens : list N;                     (* answers of successive ExactSizeIterator::len() calls (last repeats) *)
  sc_hints : list (N * option N);       (* answers of successive size_hint() calls (last repeats) *)
  sc_panic : nat }.                     (* the next() call that panics (1-based; 0 = never) *)

Record iter := mkI { it_len_calls : nat; it_hint_calls : nat; it_next_calls : nat; it_rest : list tok }.

Definition pick {A} (l : list A) (k : nat) (d : A) : A := nth (Nat.min k (length l - 1)) l d.

Definition call_len (sc : script) (it : iter) : N * iter :=
  (match sc_lens sc with [] => N.of_nat (length (it_rest it)) | l => pick l (it_len_calls it) 0 end,
   mkI (S (it_len_calls it)) (it_hint_calls it) (it_next_calls it) (it_rest it)).
Definition call_hint (sc : script) (it : iter) : (N * option N) * iter :=
  (match sc_hints sc with
   | [] => (N.of_nat (length (it_rest it)), Some (N.of_nat (length (it_rest it))))
   | l => pick l (it_hint_calls it) (0, None) end,
   mkI (it_len_calls it) (S (it_hint_calls it)) (it_next_calls it) (it_rest it)).

Inductive nres := NSome (t : tok) | NNone | NPanic.
Definition call_next (sc : script) (it : iter) : nres * iter :=
  let k := S (it_next_calls it) in
  if Nat.eqb k (sc_panic sc) then (NPanic, mkI (it_len_calls it) (it_hint_calls it) k (it_rest it))
  else match it_rest it with
       | [] => (NNone, mkI (it_len_calls it) (it_hint_calls it) k [])
       | t :: r => (NSome t, mkI (it_len_calls it) (it_hint_calls it) k r)
       end.

(** what a constructor call ends in *)
Inductive outcome :=
| Built (hdr : option tok) (reclen : N) (cells : list tok) (dropped : list tok)
       (* a handle: header, recorded length (thin), elements in order; tokens destroyed during the call, in order *)
| Leaked (hdr : option tok) (cells : list tok) (dropped : list tok)
       (* a panic: the half-built block (header and the elements written so far) is leaked; [dropped] were destroyed *)
| Failed (dropped : list tok).
       (* a panic with no block left behind: everything the call owned was destroyed *)

(** [Arc::from_header_and_iter]: [n = items.len()]; allocate; write the header; [n] times
    [items.next().expect(..)]; then [assert!(items.next().is_none())].  When it unwinds the iterator (a local)
    is dropped, which destroys what it still holds. *)
Fixpoint fill (sc : script) (n : nat) (acc : list tok) (it : iter) : (list tok * iter) + (list tok * list tok) :=
  match n with
  | O => inl (acc, it)
  | S k =>
    match call_next sc it with
    | (NSome t, it') => fill sc k (acc ++ [t]) it'
    | (NNone, it') => inr (acc, it_rest it')            (* "ExactSizeIterator over-reported length" *)
    | (NPanic, it') => inr (acc, it_rest it')
    end
  end.

Definition fhai (sc : script) (h : option tok) (it : iter) : outcome * N :=
  let '(n, it1) := call_len sc it in
  match fill sc (N.to_nat n) [] it1 with
  | inr (acc, dropped) => (Leaked h acc dropped, n)
  | inl (acc, it2) =>
    match call_next sc it2 with
    | (NNone, it3) => (Built h 0 acc (it_rest it3), n)
    | (NSome t, it3) => (Leaked h acc (t :: it_rest it3), n)     (* "under-reported": the extra item is a temporary *)
    | (NPanic, it3) => (Leaked h acc (it_rest it3), n)
    end
  end.

(** [ThinArc::from_header_and_iter]: the header records [items.len()] (first call); the fat constructor asks again;
    [into_thin] compares the recorded length with the real one and, on a mismatch, unwinds and releases the Arc *)
Definition thin_fhai (sc : script) (h : tok) (it : iter) : outcome :=
  let '(n1, it1) := call_len sc it in
  match fhai sc (Some h) it1 with
  | (Built hd _ cells dropped, _) =>
    if n1 =? N.of_nat (length cells) then Built hd n1 cells dropped
    else Failed (dropped ++ h :: cells)
  | (o, _) => o
  end.

(** [collect()] into a Vec: next() until None; a panic drops what the iterator still holds, then what was collected *)
Fixpoint collect (sc : script) (fuel : nat) (acc : list tok) (it : iter) : (list tok) + (list tok) :=
  match fuel with
  | O => inl acc
  | S f =>
    match call_next sc it with
    | (NSome t, it') => collect sc f (acc ++ [t]) it'
    | (NNone, _) => inl acc
    | (NPanic, it') => inr (it_rest it' ++ acc)
    end
  end.

(** [FromIterator for UniqueArc<[A]>] / [Arc<[A]>]: exact-size fast path when the first size_hint says
    lower == upper (through IteratorAsExactSizeIterator, which asks size_hint again in [new] and in [len];
    with debug assertions each of those asserts lower == upper), else collect to a Vec and move it over *)
Definition from_iter (dbg : bool) (sc : script) (it : iter) : outcome :=
  let '((lo, hi), it1) := call_hint sc it in
  if match hi with Some u => lo =? u | None => false end then
    let '((lo2, hi2), it2) := call_hint sc it1 in
    if dbg && negb (match hi2 with Some u => lo2 =? u | None => false end) then Failed (it_rest it2) else
    let '((lo3, hi3), it3) := call_hint sc it2 in
    if dbg && negb (match hi3 with Some u => lo3 =? u | None => false end) then Failed (it_rest it3) else
    (* from_header_and_iter((), wrapper) with len() = lo3 *)
    match fill sc (N.to_nat lo3) [] it3 with
    | inr (acc, dropped) => Leaked None acc dropped
    | inl (acc, it4) =>
      match call_next sc it4 with
      | (NNone, it5) => Built None 0 acc (it_rest it5)
      | (NSome t, it5) => Leaked None acc (t :: it_rest it5)
      | (NPanic, it5) => Leaked None acc (it_rest it5)
      end
    end
  else
    match collect sc (S (length (it_rest it1))) [] it1 with
    | inl v => Built None 0 v []
    | inr dropped => Failed dropped
    end.

(** ** the `ctor` correspondence stream *)
Definition SEP : N := 99999999.
Fixpoint parse_hints (k : nat) (l : list N) : option (list (N * option N) * list N) :=
  match k with
  | O => Some ([], l)
  | S k' => match l with
            | lo :: hi :: r =>
              if (64 <? lo) || (65 <? hi) then None else
              match parse_hints k' r with
              | Some (hs, r') => Some ((lo, if hi =? 0 then None else Some (hi - 1)) :: hs, r')
              | None => None end
            | _ => None end
  end.

Definition show (o : outcome) (base : tok -> list N) : list N :=
  match o with
  | Built h rl cells dropped =>
    [0; match h with Some t => t | None => 999 end; rl; N.of_nat (length cells)] ++ cells ++ [SEP] ++ dropped ++ [SEP; 0; SEP]
    ++ (match h with Some t => [t] | None => [] end) ++ cells
  | Leaked _ _ dropped => [1; SEP] ++ dropped
  | Failed dropped => [1; SEP] ++ dropped
  end.

Definition items_of (n : nat) : list tok := map N.of_nat (seq 1 n).

(** destructor-panic cases [[20 + kind; n; k]]: the last handle of a block holding the tokens [toks] is released and
    the destructor of token [k] panics.  Drop glue destroys the remaining values while unwinding and [Box] frees its
    memory on the unwind path too: every value destroyed once, in order, the block returned once, the panic propagates
    iff token [k] was among the destroyed ones.  (Rust's drop elaboration; validated against the implementation.) *)
Definition dpanic_toks (kind : N) (n : nat) : option (list N) :=
  match kind with
  | 0 | 4 | 5 => Some [0]
  | 1 | 6 | 8 => Some (map N.of_nat (seq 0 n))
  | 2 | 3 => Some (map N.of_nat (seq 0 (S n)))
  | 7 => Some [0]                     (* MaybeUninit elements: only the header is destroyed *)
  | _ => None
  end.
(** kinds 20..23 (case [[40 + j; 0; 0]]): a value with two owners; unwrap_or_clone / make_mut / make_unique /
    OffsetArc::make_mut clone it because it is shared, and the other owner is released DURING that clone (the payload's
    Clone does it re-entrantly: what another thread could do at that point).  The handle the operation then gives up is
    the last one: the original value (token 0) is destroyed exactly once, its block returned once, the result is a sole
    owner of the clone. *)
Definition run_dpanic (kind n k : N) : list N :=
  if 50 <=? kind then
    (* kinds 50..55: two values in distinct allocations, two owning handles each (Arc, OffsetArc, ArcBorrow, ThinArc,
       ArcUnion, Arc<HeaderSlice>); every comparison, hash and format the handle kind offers is run with a payload whose
       own trait impls read the counts through the side handles: the payload is consulted, and the count is 2 before,
       2 at every point inside, 2 after *)
    (if (kind <? 56) && (n =? 0) && (k =? 0) then [0; SEP; SEP; 1; 2; 2; 2; 2] else [98]) else
  if 28 <=? kind then
    (* kinds 28..33: a ZERO-SIZED header / payload with drop glue through from_header_and_uninit_slice (dropped
       uninitialised; assumed initialised and shared), from_header_and_iter, from_header_and_vec, From<Box<T>>, Arc::new:
       it is not destroyed during construction, exactly once when the last handle goes, the elements once each when
       initialised, and nothing that was never allocated reaches the allocator *)
    (* kinds 34..39: a zero-sized value unwrapped by its sole owner (try_unwrap, unwrap_or_clone, try_unique + into_inner,
       UniqueArc::new + into_inner, TryFrom + into_inner): it comes out undestroyed and is destroyed once by the caller;
       shared unwrap_or_clone: the clone and the original are destroyed once each.  Last number: blocks allocated and
       not released (the block of a zero-sized payload still holds the count: it is a real allocation) *)
    (* kinds 40..42: zero-sized ELEMENTS with a destructor through From<Vec<T>>, from_header_and_vec (zero-sized header
       too) and an inexact iterator: three values, none destroyed by the constructor, each once with the handle;
       kinds 43, 44: Arc::make_mut / OffsetArc::make_mut on a SHARED zero-sized value: one Clone call (sixth number),
       the handle redirected to a block of its own, two values destroyed in the end *)
    (if (kind <? 40) && (n =? 0) && (k =? 0)
     then [0; SEP; SEP; 0; (if kind =? 39 then 2 else 1); (if (29 <=? kind) && (kind <=? 31) then 2 else 0); 0; 0] else
     if (kind <? 43) && (n =? 0) && (k =? 0) then [0; SEP; SEP; 0; 3; 0; 0; 0] else
     if (kind <? 45) && (n =? 0) && (k =? 0) then [0; SEP; SEP; 0; 2; 1; 0; 0] else
     (* kinds 45, 46: from_header_and_uninit_slice with a length whose layout overflows: the constructor panics and the
        header it was given is destroyed exactly once by the unwinding *)
     if (kind <? 47) && (n =? 0) && (k =? 0) then [1; SEP; SEP; 0; 1; 0; 0; 0] else
     (* kinds 47..49: zero-sized ELEMENTS behind a header whose recorded length is not the real one (5 for 2 elements;
        0 for 3; a correct thin handle made fat again, relabelled 7 through get_mut): Arc::into_thin refuses with a
        panic, and the unwinding destroys the header and each real element exactly once *)
     if (kind <? 50) && (n =? 0) && (k =? 0) then [1; SEP; SEP; 0; (if kind =? 48 then 4 else 3); 0; 0; 0] else [98]) else
  if 24 <=? kind then
    (* kinds 24..27: make_mut / OffsetArc::make_mut / make_unique / unwrap_or_clone of a SHARED value whose type has no
       drop glue and is not Copy: exactly one Clone call, the copy is the Clone's result, the other owner's value is
       untouched by a write through the result and it is the only owner left *)
    (if (kind <? 28) && (n =? 0) && (k =? 0) then [0; SEP; SEP; 1; 1; 1; 1] else [98]) else
  if 20 <=? kind then
    (if (n =? 0) && (k =? 0) then [0; SEP; 0; SEP; 1; 1] else
     (* [k = 1] (make_mut, make_unique, OffsetArc::make_mut): the old value's destructor panics when the operation
        releases the old handle, which has become the last one.  The assignment still installs the fresh copy (and
        OffsetArc::make_mut writes it back on the unwind path), so the handle owns it: the original is destroyed once,
        its block returned once, the panic propagates, and the fresh copy (token 1) goes with the handle *)
     if (n =? 0) && (k =? 1) && (20 <? kind) then [1; SEP; 0; 1; SEP; 1; 0] else [98]) else
  if 16 <? n then [99] else
  match dpanic_toks kind (N.to_nat n) with
  | None => [98]
  | Some toks => [if existsb (N.eqb k) toks then 1 else 0; SEP] ++ toks ++ [SEP; 1]
  end.

Definition run_ctor1 (dbg : bool) (op : list N) : list N :=
  match op with
  | [c; n; k] => if (20 <=? c) && (c <? 80) then run_dpanic (c - 20) n k else [99]
  | ctor :: n :: panic_at :: extra :: nl :: rest =>
    if (64 <? n) || (64 <? extra) then [99] else
    let k := N.to_nat nl in
    if Nat.ltb (length rest) (S k) then [99] else
    let lens := firstn k rest in
    if existsb (fun x => 64 <? x) lens then [99] else
    match skipn k rest with
    | nh :: r2 =>
      match parse_hints (N.to_nat nh) r2 with
      | Some (hints, []) =>
        let sc := mkS lens hints (N.to_nat panic_at) in
        let it := mkI 0 0 0 (items_of (N.to_nat n)) in
        if ctor =? 0 then show (fst (fhai sc (Some 0) it)) (fun _ => [])
        else if ctor =? 1 then show (thin_fhai sc 0 it) (fun _ => [])
        else if (ctor =? 2) || (ctor =? 3) then
          match from_iter dbg sc it with
          | Built h rl cells dropped => show (Built h rl cells (0 :: dropped)) (fun _ => [])     (* the unused header was dropped first *)
          | Leaked h c dropped => show (Leaked h c (0 :: dropped)) (fun _ => [])
          | Failed dropped => show (Failed (0 :: dropped)) (fun _ => [])
          end
        else if ctor =? 4 then show (Built (Some 0) 0 (items_of (N.to_nat n)) []) (fun _ => [])
        else if ctor =? 5 then show (Built None 0 (items_of (N.to_nat n)) [0]) (fun _ => [])
        else if (ctor =? 6) || (ctor =? 7) || (ctor =? 8) || (ctor =? 9) then
          (* one-element payloads: the header token is the value; the unused items were dropped first *)
          [0; 999; 0; 1; 0; SEP] ++ items_of (N.to_nat n) ++ [SEP; 0; SEP; 0]
        else if (ctor =? 11) || (ctor =? 12) then
          [0; 999; 0; n + 1; 7] ++ map (fun i => (if ctor =? 11 then 100 else 97) + N.of_nat i mod (if ctor =? 11 then 1000 else 26)) (seq 0 (N.to_nat n))
          ++ [SEP; 0] ++ items_of (N.to_nat n) ++ [SEP; 0; SEP]
        else if (ctor =? 13) || (ctor =? 14) || (ctor =? 15) then
          [0; 999; 0; n] ++ map (fun i => (if ctor =? 13 then 100 else 97) + N.of_nat i mod (if ctor =? 13 then 1000 else 26)) (seq 0 (N.to_nat n))
          ++ [SEP; 0] ++ items_of (N.to_nat n) ++ [SEP; 0; SEP]
        else [98]
      | _ => [99]
      end
    | [] => [99]
    end
  | _ => [99]
  end.

(** a case may start with [[100; d]]: the implementation was built with debug assertions *)
Definition run_ctor (case : list (list N)) : list (list N) :=
  match case with
  | [100; d] :: rest => map (run_ctor1 (negb (d =? 0))) rest
  | _ => map (run_ctor1 false) case
  end.
