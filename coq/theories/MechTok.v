(** * MechTok.v — every payload value is destroyed at most once, in every history.

    A payload value is a token.  At any moment a token is in exactly one place: in a live block (header or an
    initialised cell), in the log as destroyed ([EDtor]), or in flight (moved out of a block and not yet destroyed,
    or freshly made and not yet stored).  [TokOkF m F]: counting the occurrences of every token over those three
    places gives at most one, and only tokens handed out by [fresh] occur.  Every library function is given a
    specification [tspec c Fin Fout] (consumes the in-flight tokens [Fin], leaves [Fout result] in flight) that
    composes through [bind]; every client operation preserves the invariant with nothing in flight.  Consequence
    ([reachable_dtor_once]): in the log of every reachable state no token is destroyed twice, and no destroyed
    token is still stored in a live block. *)
From Coq Require Import NArith List Bool Arith Lia.
From TV Require Import Mech MechProofs.
Import ListNotations.
Open Scope N_scope.

Fixpoint occ (t : tok) (l : list tok) : nat :=
  match l with
  | [] => 0%nat
  | x :: r => ((if N.eqb x t then 1 else 0) + occ t r)%nat
  end.
Lemma occ_app t a b : occ t (a ++ b) = (occ t a + occ t b)%nat.
Proof. induction a as [|x a IH]; simpl; auto. rewrite IH. lia. Qed.

Definition init_toks (cs : list (tok * bool)) : list tok := map fst (filter snd cs).
Definition hdr_toks (h : option tok) : list tok := match h with Some t => [t] | None => [] end.
Definition blk_toks (b : block) : list tok :=
  if b_alive b then hdr_toks (b_hdr b) ++ init_toks (b_cells b) else [].
Fixpoint live (hp : list block) : list tok :=
  match hp with [] => [] | b :: r => blk_toks b ++ live r end.
Fixpoint dtors (lg : list event) : list tok :=
  match lg with
  | [] => []
  | EDtor t :: r => t :: dtors r
  | _ :: r => dtors r
  end.

Definition total (t : tok) (m : mstate) (F : list tok) : nat :=
  (occ t (live (heap m)) + occ t (dtors (log m)) + occ t F)%nat.
Definition TokOkF (m : mstate) (F : list tok) : Prop :=
  ub m = true \/ forall t, (total t m F <= 1)%nat /\ ((0 < total t m F)%nat -> t < ntok m).

(** consumes [Fin] from flight, leaves [Fout a]; a panic or abort drops what was in flight *)
Definition tspec {A} (c : M A) (Fin : list tok) (Fout : A -> list tok) : Prop :=
  forall m F, TokOkF m (Fin ++ F) ->
    match c m with
    | (Ret a, m') => TokOkF m' (Fout a ++ F)
    | (_, m') => TokOkF m' F
    end.

Lemma tok_weaken m F1 F2 : TokOkF m (F1 ++ F2) -> TokOkF m F2.
Proof.
  intros [H|H]; [left; exact H|]. right. intros t. specialize (H t). unfold total in *. rewrite occ_app in H. split; [lia|]. intros P. apply H. lia.
Qed.
Lemma tok_perm m F F' : (forall t, occ t F = occ t F') -> TokOkF m F -> TokOkF m F'.
Proof. intros E [H|H]; [left; exact H|]. right. intros t. specialize (H t). unfold total in *. rewrite <- E. exact H. Qed.

Lemma tspec_ret {A} (a : A) Fin (Fout : A -> list tok) : (forall t, occ t Fin = occ t (Fout a)) -> tspec (ret a) Fin Fout.
Proof.
  intros E m F H. simpl. eapply tok_perm; [|exact H]. intros t. rewrite !occ_app, E. reflexivity.
Qed.
Lemma tspec_panic {A} Fin (Fout : A -> list tok) : tspec (@panic A) Fin Fout.
Proof. intros m F H. simpl. eapply tok_weaken; eauto. Qed.
Lemma tspec_bind {A B} (c : M A) (f : A -> M B) Fin Fmid Fout :
  tspec c Fin Fmid -> (forall a, tspec (f a) (Fmid a) Fout) -> tspec (bind c f) Fin Fout.
Proof.
  intros Hc Hf m F H. unfold bind. specialize (Hc m F H). destruct (c m) as [[a| |] m']; auto.
  apply Hf. exact Hc.
Qed.
(** weaken the postcondition / strengthen the precondition up to permutation and dropping *)
Lemma tspec_conseq {A} (c : M A) Fin Fin' (Fout Fout' : A -> list tok) :
  tspec c Fin Fout ->
  (forall t, occ t Fin' = occ t Fin) -> (forall a t, (occ t (Fout' a) <= occ t (Fout a))%nat) ->
  tspec c Fin' Fout'.
Proof.
  intros Hc E1 E2 m F H.
  assert (H' : TokOkF m (Fin ++ F)) by (eapply tok_perm; [|exact H]; intros t; rewrite !occ_app, E1; reflexivity).
  specialize (Hc m F H'). destruct (c m) as [[a| |] m']; auto.
  destruct Hc as [Hc|Hc]; [left; exact Hc|]. right. intros t. specialize (Hc t). specialize (E2 a t). unfold total in *. rewrite occ_app in *.
  split; [lia|]. intros P. apply Hc. lia.
Qed.
(** the frame: tokens that the computation does not touch ride along *)
Lemma tspec_frame {A} (c : M A) Fin (Fout : A -> list tok) G :
  tspec c Fin Fout -> tspec c (Fin ++ G) (fun a => Fout a ++ G).
Proof.
  intros Hc m F H. rewrite <- app_assoc in H. specialize (Hc m (G ++ F) H).
  destruct (c m) as [[a| |] m']; [rewrite <- app_assoc; exact Hc| |]; eapply tok_weaken; eauto.
Qed.

(** ** computations that move no token *)
Definition quiet {A} (c : M A) : Prop :=
  forall m, let m' := snd (c m) in
    ub m' = true \/ (live (heap m') = live (heap m) /\ dtors (log m') = dtors (log m) /\ ntok m <= ntok m' /\ ub m' = ub m).
Lemma tspec_quiet {A} (c : M A) G : quiet c -> tspec c G (fun _ => G).
Proof.
  intros Q m F H. specialize (Q m). simpl in Q.
  assert (K : TokOkF (snd (c m)) (G ++ F)).
  { destruct Q as [Q|(Q1 & Q2 & Q3 & Q4)]; [left; exact Q|]. destruct H as [H|H]; [left; congruence|]. right. intros t. specialize (H t).
    unfold total in *. rewrite Q1, Q2. split; [tauto|]. intros P. destruct H as [_ H]. specialize (H P). lia. }
  destruct (c m) as [[a| |] m']; simpl in *; auto; eapply tok_weaken; eauto.
Qed.
Lemma quiet_ret {A} (a : A) : quiet (ret a).
Proof. intros m. right. simpl. repeat split; auto. lia. Qed.
Lemma quiet_panic {A} : quiet (@panic A).
Proof. intros m. right. simpl. repeat split; auto. lia. Qed.
Lemma quiet_set_ub : quiet set_ub.
Proof. intros m. left. reflexivity. Qed.
Lemma quiet_abort {A} : quiet (@abort A).
Proof. intros m. right. simpl. repeat split; auto. lia. Qed.
Lemma quiet_bind {A B} (c : M A) (f : A -> M B) : quiet c -> (forall a, quiet (f a)) -> quiet (bind c f).
Proof.
  intros Hc Hf m. unfold bind. specialize (Hc m). destruct (c m) as [[a| |] m1] eqn:E; simpl in *; auto.
  specialize (Hf a m1). simpl in Hf. destruct (f a m1) as [r m2]. simpl in *.
  destruct Hf as [Hf|(F1 & F2 & F3 & F4)]; [left; exact Hf|].
  destruct Hc as [Hc|(C1 & C2 & C3 & C4)]; [left; congruence|]. right. repeat split; try congruence. lia.
Qed.
Definition not_dtor (e : event) : bool := match e with EDtor _ => false | _ => true end.
Lemma quiet_emit e : not_dtor e = true -> quiet (emit e).
Proof. intros He m. right. simpl. repeat split; auto; [|lia]. destruct e; simpl in *; auto; discriminate. Qed.
Lemma quiet_get_blk l : quiet (get_blk l).
Proof.
  intros m. unfold get_blk. destruct (nth_error (heap m) l) as [b|]; [destruct (b_alive b)|]; simpl; auto.
  right. repeat split; auto. lia.
Qed.

(** replacing a block by one holding the same tokens *)
Lemma live_upd_same hp l b b' : nth_error hp l = Some b -> blk_toks b' = blk_toks b -> live (upd hp l b') = live hp.
Proof.
  revert l. induction hp as [|x hp IH]; intros [|l] Hb E; simpl in *; try discriminate; auto.
  - inversion Hb; subst. rewrite E. reflexivity.
  - rewrite (IH l); auto.
Qed.
Lemma occ_live_upd t hp l b b' : nth_error hp l = Some b ->
  (occ t (live (upd hp l b')) + occ t (blk_toks b) = occ t (live hp) + occ t (blk_toks b'))%nat.
Proof.
  revert l. induction hp as [|x hp IH]; intros [|l] Hb; simpl in *; try discriminate.
  - inversion Hb; subst. rewrite !occ_app. lia.
  - rewrite !occ_app. specialize (IH l Hb). lia.
Qed.
Lemma live_app hp b : live (hp ++ [b]) = live hp ++ blk_toks b.
Proof. induction hp as [|x hp IH]; simpl; [rewrite app_nil_r; auto|]. rewrite IH, app_assoc. reflexivity. Qed.

Lemma blk_toks_set_cnt b c : blk_toks (set_cnt b c) = blk_toks b.
Proof. reflexivity. Qed.

Lemma quiet_rmw_cnt {A} l (f : block -> N) (evs : block -> list event) (r : block -> A) :
  (forall b, forallb not_dtor (evs b) = true) ->
  quiet (fun m => match nth_error (heap m) l with
                  | Some b => if b_alive b then (Ret (r b), mkM (upd (heap m) l (set_cnt b (f b))) (evs b ++ log m) (ub m) (ntok m))
                              else (Ret (r b), mkM (upd (heap m) l (set_cnt b (f b))) (evs b ++ log m) true (ntok m))
                  | None => (Ret (r dummy_block), mkM (upd (heap m) l (set_cnt dummy_block (f dummy_block))) (evs dummy_block ++ log m) true (ntok m))
                  end).
Proof.
  intros He m. destruct (nth_error (heap m) l) as [b|] eqn:Hb; [destruct (b_alive b) eqn:Al|]; simpl; auto.
  right. repeat split; auto; [apply (live_upd_same _ _ b); auto| |lia].
  specialize (He b). induction (evs b) as [|e r0 IH]; simpl in *; auto.
  apply andb_true_iff in He. destruct He as [He1 He2]. destruct e; simpl in *; auto; discriminate.
Qed.
Lemma quiet_ext {A} (c c' : M A) : (forall m, c m = c' m) -> quiet c' -> quiet c.
Proof. intros E H m. rewrite E. apply H. Qed.
Lemma quiet_fetch_add l s : quiet (fetch_add l s).
Proof.
  eapply quiet_ext; [|apply (quiet_rmw_cnt l (fun b => (b_cnt b + 1) mod usize_mod) (fun b => [EAtomic s (b_cnt b)]) b_cnt); auto].
  intros m. unfold fetch_add, bind, get_blk, emit, put_blk, ret. simpl.
  destruct (nth_error (heap m) l) as [b|]; [destruct (b_alive b)|]; reflexivity.
Qed.
Lemma quiet_fetch_sub l s : quiet (fetch_sub l s).
Proof.
  eapply quiet_ext; [|apply (quiet_rmw_cnt l (fun b => (b_cnt b + usize_mod - 1) mod usize_mod) (fun b => [EAtomic s (b_cnt b)]) b_cnt); auto].
  intros m. unfold fetch_sub, bind, get_blk, emit, put_blk, ret. simpl.
  destruct (nth_error (heap m) l) as [b|]; [destruct (b_alive b)|]; reflexivity.
Qed.
Lemma quiet_load l s : quiet (load l s).
Proof. unfold load. apply quiet_bind; [apply quiet_get_blk|]. intros b. apply quiet_bind; [apply quiet_emit; reflexivity|]. intros _. apply quiet_ret. Qed.

(** ** primitives that move tokens *)
Lemma tspec_fresh : tspec fresh [] (fun t => [t]).
Proof.
  intros m F [H|H]; simpl; [left; exact H|]. right. intros t. specialize (H t). unfold total in *. simpl in *.
  destruct (N.eqb_spec (ntok m) t) as [<-|Ne].
  - assert (Z : (occ (ntok m) (live (heap m)) + occ (ntok m) (dtors (log m)) + occ (ntok m) F = 0)%nat).
    { destruct H as [_ H]. destruct (Nat.eq_dec (occ (ntok m) (live (heap m)) + occ (ntok m) (dtors (log m)) + occ (ntok m) F) 0); auto.
      assert (ntok m < ntok m) by (apply H; lia). lia. }
    split; [lia|]. intros _. lia.
  - split; [lia|]. intros P. destruct H as [_ H]. assert (t < ntok m) by (apply H; lia). lia.
Qed.

Lemma tspec_emit_dtor t : tspec (emit (EDtor t)) [t] (fun _ => []).
Proof.
  intros m F [H|H]; simpl; [left; exact H|]. right. intros t'. specialize (H t'). unfold total in *. simpl in *. lia.
Qed.

Lemma tspec_drop_hdr h : tspec (drop_hdr h) (hdr_toks h) (fun _ => []).
Proof. destruct h as [t|]; simpl; [apply tspec_emit_dtor|apply tspec_ret; auto]. Qed.

(** dropping moved-out cells: the initialised ones are destroyed; an uninitialised one under an initialised type is
    undefined; under a MaybeUninit type nothing is destroyed (the tokens leak) *)
Lemma tspec_drop_cells v cs : tspec (drop_cells v cs) (init_toks cs) (fun _ => []).
Proof.
  induction cs as [|[t i] r IH]; simpl; [apply tspec_ret; auto|].
  destruct v.
  - destruct i; simpl.
    + unfold init_toks. simpl. apply (tspec_bind _ _ _ (fun _ => init_toks r)).
      * change (t :: map fst (filter snd r)) with ([t] ++ init_toks r). apply (tspec_frame (emit (EDtor t)) [t] (fun _ => [])). apply tspec_emit_dtor.
      * intros _. exact IH.
    + unfold init_toks. simpl. apply (tspec_bind _ _ _ (fun _ => init_toks r)); [apply tspec_quiet; apply quiet_set_ub|intros _; exact IH].
  - apply (tspec_bind _ _ _ (fun _ => init_toks r)).
    + eapply tspec_conseq; [apply (tspec_quiet (ret tt) (init_toks ((t, i) :: r))); apply quiet_ret| auto |].
      intros a0 t'. unfold init_toks. simpl. destruct i; simpl; lia.
    + intros _. exact IH.
Qed.

(** ** effects of the drop glue, as equations on the resulting state *)
Lemma drop_hdr_eff h m :
  exists m', drop_hdr h m = (Ret tt, m') /\ heap m' = heap m /\ ntok m' = ntok m /\ ub m' = ub m /\
             (forall t, occ t (dtors (log m')) = (occ t (hdr_toks h) + occ t (dtors (log m)))%nat).
Proof.
  destruct h as [x|]; simpl; eexists; (split; [reflexivity|]); simpl; repeat split; auto.
Qed.

Lemma drop_cells_eff v cs : forall m,
  exists m', drop_cells v cs m = (Ret tt, m') /\ heap m' = heap m /\ ntok m' = ntok m /\ (ub m = true -> ub m' = true) /\
             (ub m' = true \/ (ub m' = ub m /\
               forall t, occ t (dtors (log m')) = (occ t (if v then init_toks cs else []) + occ t (dtors (log m)))%nat)).
Proof.
  induction cs as [|[x i] r IH]; intros m; simpl.
  - exists m. repeat split; auto. right. split; auto. intros t. destruct v; reflexivity.
  - unfold bind. destruct v; [destruct i|].
    + unfold emit at 1. simpl. destruct (IH (mkM (heap m) (EDtor x :: log m) (ub m) (ntok m))) as (m' & E & H1 & H2 & H3 & H4).
      exists m'. split; [exact E|]. simpl in *. repeat split; auto. destruct H4 as [H4|[H4 H5]]; [left; exact H4|]. right. split; auto.
      intros t. rewrite H5. unfold init_toks. simpl. lia.
    + unfold set_ub at 1. simpl. destruct (IH (mkM (heap m) (log m) true (ntok m))) as (m' & E & H1 & H2 & H3 & H4).
      exists m'. split; [exact E|]. simpl in *. repeat split; auto.
    + unfold ret at 1. destruct (IH m) as (m' & E & H1 & H2 & H3 & H4). exists m'. split; [exact E|]. repeat split; auto.
Qed.

Lemma tok_mono m F m' F' :
  (ub m = true -> ub m' = true) ->
  (ub m' = true \/ ((forall t, (total t m' F' <= total t m F)%nat) /\ ntok m <= ntok m')) ->
  TokOkF m F -> TokOkF m' F'.
Proof.
  intros U [K|[K1 K2]] [H|H]; try (left; auto; fail). right. intros t. specialize (H t). specialize (K1 t).
  split; [lia|]. intros P. destruct H as [_ H]. assert (t < ntok m) by (apply H; lia). lia.
Qed.

Lemma occ_live_dead t hp l b : nth_error hp l = Some b ->
  (occ t (live (upd hp l (set_dead b))) + occ t (blk_toks b) = occ t (live hp))%nat.
Proof.
  intros Hb. pose proof (occ_live_upd t hp l b (set_dead b) Hb) as E.
  assert (Z : blk_toks (set_dead b) = []) by reflexivity. rewrite Z in E. simpl in E. lia.
Qed.

Lemma occ_init_le t b : b_alive b = true -> (occ t (hdr_toks (b_hdr b)) + occ t (init_toks (b_cells b)) = occ t (blk_toks b))%nat.
Proof. intros A. unfold blk_toks. rewrite A, occ_app. reflexivity. Qed.

Lemma tspec_box_free l v : tspec (box_free l v) [] (fun _ => []).
Proof.
  intros m F H. simpl in H. unfold box_free, bind.
  destruct (get_blk l m) as [[b| |] m0] eqn:G; try (unfold get_blk in G; destruct (nth_error (heap m) l) as [b0|]; [destruct (b_alive b0)|]; discriminate).
  assert (G' : (nth_error (heap m) l = Some b /\ b_alive b = true /\ m0 = m) \/ (ub m0 = true /\ heap m0 = heap m)).
  { unfold get_blk in G. destruct (nth_error (heap m) l) as [b0|] eqn:Hb; [destruct (b_alive b0) eqn:Al|]; inversion G; subst; simpl; auto. }
  destruct (drop_hdr_eff (b_hdr b) m0) as (m1 & E1 & A1 & A2 & A3 & A4). rewrite E1.
  destruct (drop_cells_eff v (b_cells b) m1) as (m2 & E2 & B1 & B2 & B3 & B4). rewrite E2.
  unfold emit, put_blk. simpl.
  destruct G' as [(Hb & Al & ->)|(U & _)].
  - eapply tok_mono; [| |exact H]; simpl.
    + intros U. apply B3. congruence.
    + destruct B4 as [B4|[B4 B5]]; [left; exact B4|]. right. split; [|lia].
      intros t. unfold total. simpl. rewrite B1, A1.
      pose proof (occ_live_dead t (heap m) l b Hb) as L1. pose proof (occ_init_le t b Al) as L2.
      rewrite B5, A4. destruct v; simpl; lia.
  - left. simpl. apply B3. congruence.
Qed.

(** [Box::from_raw(ptr).data]: the cells move out (in flight); the header, if any, is dropped with the box *)
Lemma tspec_box_take l : tspec (box_take l) [] (fun cs => init_toks cs).
Proof.
  intros m F H. simpl in H. unfold box_take, bind, get_blk.
  destruct (nth_error (heap m) l) as [b|] eqn:Hb; [destruct (b_alive b) eqn:Al|]; simpl; try (left; reflexivity).
  eapply tok_mono; [| |exact H]; simpl; auto. right. split; [|lia]. intros t. unfold total. simpl.
  pose proof (occ_live_dead t (heap m) l b Hb) as L1. pose proof (occ_init_le t b Al) as L2. rewrite occ_app. lia.
Qed.

Lemma tspec_alloc_block c h rl cs : tspec (alloc_block c h rl cs) (hdr_toks h ++ init_toks cs) (fun _ => []).
Proof.
  intros m F H. unfold alloc_block. simpl. eapply tok_mono; [| |exact H]; simpl; auto. right. split; [|lia].
  intros t. unfold total. simpl. rewrite live_app, !occ_app. unfold blk_toks. simpl. rewrite !occ_app. lia.
Qed.

Lemma tspec_fresh_cells n init : tspec (fresh_cells n init) [] (fun cs => init_toks cs).
Proof.
  induction n as [|n IH]; simpl; [apply tspec_ret; auto|].
  destruct init.
  - apply (tspec_bind _ _ _ (fun t => [t])); [apply tspec_fresh|]. intros t.
    apply (tspec_bind _ _ _ (fun r => init_toks r ++ [t])).
    + eapply tspec_conseq; [apply (tspec_frame _ _ _ [t] IH)| reflexivity | intros; lia].
    + intros r. apply tspec_ret. intros t'. unfold init_toks. simpl. rewrite occ_app. simpl. lia.
  - apply (tspec_bind _ _ _ (fun _ => [])); [apply tspec_ret; auto|]. intros t.
    apply (tspec_bind _ _ _ (fun r => init_toks r)); [exact IH|]. intros r. apply tspec_ret. intros t'. reflexivity.
Qed.

(** a computation that neither touches tokens nor needs any in flight can run with anything in flight *)
Lemma tspec_quiet' {A} (c : M A) G (Fout : A -> list tok) : quiet c -> (forall a t, (occ t (Fout a) <= occ t G)%nat) -> tspec c G Fout.
Proof. intros Q E. eapply tspec_conseq; [apply (tspec_quiet c G Q)|reflexivity|exact E]. Qed.

(** the payload's Clone: a fresh token *)
Lemma tspec_call_clone l pf : tspec (call_clone l pf) [] (fun t => [t]).
Proof.
  unfold call_clone. apply (tspec_bind _ _ _ (fun _ => [])); [apply tspec_quiet; apply quiet_get_blk|]. intros b.
  destruct (b_cells b) as [|[t [|]] r].
  - apply (tspec_bind _ _ _ (fun _ => [])); [apply tspec_quiet; apply quiet_set_ub|intros; apply tspec_panic].
  - destruct pf; [apply tspec_panic|]. apply (tspec_bind _ _ _ (fun t' => [t'])); [apply tspec_fresh|]. intros t'.
    apply (tspec_bind _ _ _ (fun _ => [t'])); [apply tspec_quiet; apply quiet_emit; reflexivity|]. intros _. apply tspec_ret. reflexivity.
  - apply (tspec_bind _ _ _ (fun _ => [])); [apply tspec_quiet; apply quiet_set_ub|intros; apply tspec_panic].
Qed.

Lemma write_cell_occ cs : forall i t cs' o oi t',
  write_cell cs i t = Some (cs', (o, oi)) ->
  (occ t' (init_toks cs') + (if oi then occ t' [o] else 0) = occ t' (init_toks cs) + occ t' [t])%nat.
Proof.
  induction cs as [|[x xi] r IH]; intros i t cs' o oi t' H; simpl in H; [discriminate|].
  destruct i as [|i].
  - inversion H; subst. unfold init_toks. simpl. destruct oi; simpl; lia.
  - destruct (write_cell r i t) as [[r' [o' oi']]|] eqn:E; [|discriminate]. inversion H; subst.
    specialize (IH i t r' o oi t' E). unfold init_toks in *. simpl in *. destruct xi; simpl in *; lia.
Qed.

Lemma tspec_write_tok l i t dr : tspec (write_tok l i t dr) [t] (fun _ => []).
Proof.
  intros m F H. unfold write_tok, bind, get_blk.
  destruct (nth_error (heap m) l) as [b|] eqn:Hb; [destruct (b_alive b) eqn:Al|]; simpl.
  - destruct (write_cell (b_cells b) i t) as [[cs' [o oi]]|] eqn:W; simpl; [|left; reflexivity].
    unfold put_blk. simpl.
    assert (K : forall t', (occ t' (live (upd (heap m) l (set_cells b cs'))) + (if oi then occ t' [o] else 0)
                           = occ t' (live (heap m)) + occ t' [t])%nat).
    { intros t'. pose proof (occ_live_upd t' (heap m) l b (set_cells b cs') Hb) as E.
      pose proof (write_cell_occ _ _ _ _ _ _ t' W) as E2.
      unfold blk_toks in E. simpl in E. rewrite Al in E. rewrite ?occ_app in E. simpl in *. lia. }
    destruct dr; [destruct oi|]; simpl.
    + eapply tok_mono; [| |exact H]; simpl; auto. right. split; [|lia]. intros t'. unfold total. simpl. specialize (K t'). simpl in K. lia.
    + left. reflexivity.
    + eapply tok_mono; [| |exact H]; simpl; auto. right. split; [|lia]. intros t'. unfold total. simpl. specialize (K t'). simpl in *. destruct oi; simpl in *; lia.
  - destruct (write_cell (b_cells b) i t) as [[cs' [o oi]]|]; simpl; [|left; reflexivity].
    unfold put_blk. simpl. destruct dr; [destruct oi|]; simpl; left; reflexivity.
  - destruct (write_cell (b_cells dummy_block) i t) as [[cs' [o oi]]|]; simpl; [|left; reflexivity].
    unfold put_blk. simpl. destruct dr; [destruct oi|]; simpl; left; reflexivity.
Qed.

(** ** library functions *)
Lemma quiet_has_cell l i : quiet (has_cell l i).
Proof. unfold has_cell. apply quiet_bind; [apply quiet_get_blk|intros; apply quiet_ret]. Qed.
Lemma tspec_write_through l i dr : tspec (write_through l i dr) [] (fun _ => []).
Proof.
  unfold write_through. apply (tspec_bind _ _ _ (fun _ => [])); [apply tspec_quiet; apply quiet_has_cell|]. intros [|]; [|apply tspec_ret; auto].
  apply (tspec_bind _ _ _ (fun t => [t])); [apply tspec_fresh|]. intros t.
  apply (tspec_bind _ _ _ (fun _ => [])); [apply tspec_write_tok|intros; apply tspec_ret; auto].
Qed.

Lemma quiet_Arc_clone l : quiet (Arc_clone l).
Proof. unfold Arc_clone. apply quiet_bind; [apply quiet_fetch_add|]. intros old. destruct (_ <? _); [apply quiet_abort|apply quiet_ret]. Qed.
Lemma quiet_Arc_count l : quiet (Arc_count l). Proof. apply quiet_load. Qed.
Lemma quiet_Arc_strong_count l : quiet (Arc_strong_count l). Proof. apply quiet_load. Qed.
Lemma quiet_is_unique l : quiet (Arc_is_unique l).
Proof. unfold Arc_is_unique. apply quiet_bind; [apply quiet_Arc_count|intros; apply quiet_ret]. Qed.
Lemma quiet_dbg d l : quiet (dbg_unique_assert d l).
Proof. unfold dbg_unique_assert. destruct d; [|apply quiet_ret]. apply quiet_bind; [apply quiet_Arc_count|]. intros c. destruct (c =? 1); [apply quiet_ret|apply quiet_panic]. Qed.
Lemma quiet_try_unique d l : quiet (Arc_try_unique d l).
Proof. unfold Arc_try_unique. apply quiet_bind; [apply quiet_is_unique|]. intros [|]; [|apply quiet_ret]. apply quiet_bind; [apply quiet_dbg|intros; apply quiet_ret]. Qed.

Lemma tspec_Arc_drop l v : tspec (Arc_drop l v) [] (fun _ => []).
Proof.
  unfold Arc_drop. apply (tspec_bind _ _ _ (fun _ => [])); [apply tspec_quiet; apply quiet_fetch_sub|]. intros old.
  destruct (old =? 1); [|apply tspec_ret; auto].
  apply (tspec_bind _ _ _ (fun _ => [])); [apply tspec_quiet; apply quiet_load|intros; apply tspec_box_free].
Qed.
Lemma tspec_into_inner d l : tspec (UniqueArc_into_inner d l) [] (fun cs => init_toks cs).
Proof. unfold UniqueArc_into_inner. apply (tspec_bind _ _ _ (fun _ => [])); [apply tspec_quiet; apply quiet_dbg|intros; apply tspec_box_take]. Qed.
Definition opt_toks (o : option (list (tok * bool))) : list tok := match o with Some cs => init_toks cs | None => [] end.
Lemma tspec_try_unwrap d l : tspec (Arc_try_unwrap d l) [] opt_toks.
Proof.
  unfold Arc_try_unwrap. apply (tspec_bind _ _ _ (fun _ => [])); [apply tspec_quiet; apply quiet_try_unique|]. intros [|]; [|apply tspec_ret; auto].
  apply (tspec_bind _ _ _ (fun cs => init_toks cs)); [apply tspec_into_inner|intros; apply tspec_ret; auto].
Qed.
Lemma tspec_Arc_new t : tspec (Arc_new t) [t] (fun _ => []).
Proof. apply (tspec_alloc_block CS None 0 [(t, true)]). Qed.
Lemma tspec_make_mut l pf : tspec (Arc_make_mut l pf) [] (fun _ => []).
Proof.
  unfold Arc_make_mut. apply (tspec_bind _ _ _ (fun _ => [])); [apply tspec_quiet; apply quiet_is_unique|]. intros [|]; [apply tspec_ret; auto|].
  apply (tspec_bind _ _ _ (fun t => [t])); [apply tspec_call_clone|]. intros t.
  apply (tspec_bind _ _ _ (fun _ => [])); [apply tspec_Arc_new|]. intros l'.
  apply (tspec_bind _ _ _ (fun _ => [])); [apply tspec_Arc_drop|intros; apply tspec_ret; auto].
Qed.
Lemma tspec_into_thin l : tspec (Arc_into_thin l) [] (fun _ => []).
Proof.
  unfold Arc_into_thin. apply (tspec_bind _ _ _ (fun _ => [])); [apply tspec_quiet; apply quiet_get_blk|]. intros b.
  destruct (_ =? _); [apply tspec_ret; auto|]. apply (tspec_bind _ _ _ (fun _ => [])); [apply tspec_Arc_drop|intros; apply tspec_panic].
Qed.

(** extensionality for specifications *)
Lemma tspec_ext {A} (c c' : M A) Fin Fout : (forall m, c m = c' m) -> tspec c' Fin Fout -> tspec c Fin Fout.
Proof. intros E H m F Hm. rewrite E. apply H; auto. Qed.

(** computations that leave the heap alone *)
Definition stable {A} (c : M A) : Prop := forall m, heap (snd (c m)) = heap m.
Lemma stable_ret {A} (a : A) : stable (ret a). Proof. intros m. reflexivity. Qed.
Lemma stable_panic {A} : stable (@panic A). Proof. intros m. reflexivity. Qed.
Lemma stable_bind {A B} (c : M A) (f : A -> M B) : stable c -> (forall a, stable (f a)) -> stable (bind c f).
Proof.
  intros Hc Hf m. unfold bind. specialize (Hc m). destruct (c m) as [[a| |] m1]; simpl in *; auto.
  rewrite <- Hc. apply Hf.
Qed.
Lemma stable_load l s : stable (load l s).
Proof. intros m. unfold load, bind, get_blk, emit, ret. destruct (nth_error (heap m) l) as [b|]; [destruct (b_alive b)|]; reflexivity. Qed.
Lemma stable_dbg d l : stable (dbg_unique_assert d l).
Proof. unfold dbg_unique_assert. destruct d; [|apply stable_ret]. apply stable_bind; [apply stable_load|]. intros c. destruct (c =? 1); [apply stable_ret|apply stable_panic]. Qed.
Lemma stable_try_unique d l : stable (Arc_try_unique d l).
Proof.
  unfold Arc_try_unique, Arc_is_unique, Arc_count. apply stable_bind; [apply stable_bind; [apply stable_load|intros; apply stable_ret]|].
  intros [|]; [|apply stable_ret]. apply stable_bind; [apply stable_dbg|intros; apply stable_ret].
Qed.

(** what try_unwrap moves out is the block's cells *)
Lemma try_unwrap_cells d l m b :
  nth_error (heap m) l = Some b -> b_alive b = true ->
  match Arc_try_unwrap d l m with
  | (Ret (Some cs), _) => cs = b_cells b
  | _ => True
  end.
Proof.
  intros Hb Al. unfold Arc_try_unwrap, bind.
  pose proof (stable_try_unique d l m) as S1. destruct (Arc_try_unique d l m) as [[u| |] m1]; simpl in *; auto.
  destruct u; simpl; auto. unfold UniqueArc_into_inner, bind.
  pose proof (stable_dbg d l m1) as S2. destruct (dbg_unique_assert d l m1) as [[[]| |] m2]; simpl in *; auto.
  unfold box_take, bind, get_blk. rewrite S2, S1, Hb, Al. simpl. reflexivity.
Qed.

(** unwrap_or_clone hands out one token: the moved-out value of a sole owner (its cell is initialised: the handle
    invariant of an Arc-typed handle) or a fresh clone *)
Lemma unwrap_or_clone_tok d l pf m F b :
  nth_error (heap m) l = Some b -> b_alive b = true -> all_init (b_cells b) = true ->
  TokOkF m F ->
  match Arc_unwrap_or_clone d l pf m with
  | (Ret t, m') => TokOkF m' ([t] ++ F)
  | (_, m') => TokOkF m' F
  end.
Proof.
  intros Hb Al Ai H. unfold Arc_unwrap_or_clone, bind.
  pose proof (tspec_try_unwrap d l m F H) as H1. pose proof (try_unwrap_cells d l m b Hb Al) as C.
  destruct (Arc_try_unwrap d l m) as [[[cs|]| |] m1]; simpl in *; auto.
  - subst cs. destruct (b_cells b) as [|[t i] r]; simpl in *.
    + left. reflexivity.
    + apply andb_true_iff in Ai. destruct Ai as [Ai _]. simpl in Ai. subst i.
      eapply tok_mono; [| |exact H1]; auto. right. split; [|lia]. intros t'. unfold total. unfold init_toks. simpl. rewrite !occ_app. simpl. lia.
  - pose proof (tspec_call_clone l pf m1 F H1) as H2.
    destruct (call_clone l pf m1) as [[t'| |] m2]; simpl in *; auto.
    + apply (tspec_bind (Arc_drop l true) (fun _ => ret t') [t'] (fun _ => [t']) (fun t => [t])); auto.
      * eapply tspec_conseq; [apply (tspec_frame _ _ _ [t'] (tspec_Arc_drop l true))|reflexivity|intros; simpl; lia].
      * intros _. apply tspec_ret. reflexivity.
    + pose proof (tspec_Arc_drop l true m2 F H2) as H3. unfold bind. destruct (Arc_drop l true m2) as [[[]| |] m3]; simpl in *; auto.
Qed.

Lemma tspec_clone_impl k f k' l : clone_impl k = Some (f, k') -> tspec (f l) [] (fun _ => []).
Proof.
  intros H. destruct (clone_impl_spec _ _ _ H) as (E & _). eapply tspec_ext; [intros m; apply E|]. apply tspec_quiet. apply quiet_Arc_clone.
Qed.
Lemma tspec_drop_impl k f l : drop_impl k = Some f -> tspec (f l) [] (fun _ => []).
Proof. intros H. destruct (drop_impl_spec _ _ H) as (v & E & _). eapply tspec_ext; [intros m; apply E|]. apply tspec_Arc_drop. Qed.
Lemma tspec_count_impl acc k f l : count_impl acc k = Some f -> tspec (f l) [] (fun _ => []).
Proof. intros H. destruct (count_impl_spec _ _ _ H) as (s & E). eapply tspec_ext; [intros m; apply E|]. apply tspec_quiet. apply quiet_load. Qed.

(** ** client operations *)
Definition STokOk (s : st) : Prop := TokOkF (ms s) [].

Lemma run_lib_tok {A} s (m : M A) k :
  STokOk s -> tspec m [] (fun _ => []) -> (forall a s1, STokOk s1 -> STokOk (fst (fst (k a s1)))) ->
  STokOk (fst (run_lib s m k)).
Proof.
  intros Hs Hm Hk. rewrite run_lib_fst. pose proof (Hm (ms s) [] Hs) as H1.
  destruct (m (ms s)) as [[a| |] m1]; simpl in *; auto.
Qed.

Ltac tq := apply tspec_quiet.
Ltac tb := apply (tspec_bind _ _ _ (fun _ => [])).
Ltac lk := intros ? ? ?; simpl; auto.

Lemma tspec_new (hashdr : bool) (len : nat) (init : bool) (cls : bcls) (rl : N) :
  tspec (h <- (if hashdr then (t <- fresh ;; ret (Some t)) else ret None) ;; cs <- fresh_cells len init ;; alloc_block cls h rl cs) [] (fun _ => []).
Proof.
  apply (tspec_bind _ _ _ (fun h => hdr_toks h)).
  - destruct hashdr.
    + apply (tspec_bind _ _ _ (fun t => [t])); [apply tspec_fresh|]. intros t. apply tspec_ret. reflexivity.
    + apply tspec_ret. reflexivity.
  - intros h. apply (tspec_bind _ _ _ (fun cs => init_toks cs ++ hdr_toks h)).
    + eapply tspec_conseq; [apply (tspec_frame _ _ _ (hdr_toks h) (tspec_fresh_cells len init))|reflexivity|intros; lia].
    + intros cs. eapply tspec_conseq; [apply tspec_alloc_block| |intros; lia]. intros t. rewrite !occ_app. lia.
Qed.

Lemma exit_frame_ms s f : ms (exit_frame s f) = ms s.
Proof.
  unfold exit_frame. destruct (get_h s (f_h f)); auto. destruct (begin_info _ _) as [[[? ?] ?]|]; auto.
  destruct (_ && _); auto.
Qed.
Lemma exit_all_ms fs : forall s, ms (exit_all s fs) = ms s.
Proof. induction fs as [|f r IH]; intros s; simpl; auto. rewrite IH. apply exit_frame_ms. Qed.

Theorem step_tok d s o : Good s -> STokOk s -> STokOk (fst (step d s o)).
Proof.
  intros G H. unfold step. destruct (dead s); [exact H|]. destruct (skip s); [|destruct o; exact H].
  destruct o; try exact H.
  - (* new *) unfold do_new. destruct (64 <? n); [exact H|]. destruct (new_info c) as [[[[[k cls] hh] init] fixed]|]; [|exact H].
    apply run_lib_tok; [exact H|apply tspec_new|lk].
  - destruct (get_h s h) as [x|]; [|exact H]. destruct (clone_impl (hk x)) as [[f k']|] eqn:E; [|exact H].
    apply run_lib_tok; [exact H|eapply tspec_clone_impl; eauto|lk].
  - destruct (get_h s h) as [x|]; [|exact H]. destruct (drop_impl (hk x)) as [f|] eqn:E; [|exact H]. destruct (can_consume (hm x)); [|exact H].
    apply run_lib_tok; [exact H|eapply tspec_drop_impl; eauto|lk].
  - destruct (get_h s h) as [x|]; [|exact H]. destruct (_ && _); exact H.
  - (* conv *) destruct (get_h s h) as [x|]; [|exact H]. destruct (negb (can_consume (hm x))); [exact H|].
    destruct (c =? 16).
    { destruct (assume_target (hk x)); [|exact H]. apply run_lib_tok; [exact H|tq; apply quiet_get_blk|]. intros b s1 H1. destruct (all_init (b_cells b)); simpl; auto. }
    destruct (conv_target c (hk x)); [|exact H]. destruct (c =? 7); [|exact H].
    pose proof (tspec_into_thin (hl x) (ms s) [] H) as H1. destruct (Arc_into_thin (hl x) (ms s)) as [[l| |] m1]; simpl in *; exact H1.
  - (* clone_arc *) destruct (get_h s h) as [x|]; [|exact H].
    destruct (hk x); try exact H; (apply run_lib_tok; [exact H| |lk]); tq;
      unfold ArcBorrow_clone_arc, OffsetArc_clone_arc; try apply quiet_Arc_clone; (apply quiet_bind; [apply quiet_Arc_clone|intros; apply quiet_ret]).
  - destruct (get_h s h) as [x|]; [|exact H]. destruct (count_impl acc (hk x)) as [f|] eqn:E; [|exact H].
    apply run_lib_tok; [exact H|eapply tspec_count_impl; eauto|lk].
  - destruct (get_h s h) as [x|]; [|exact H]. destruct (is_arc_kind (hk x)); [|exact H].
    apply run_lib_tok; [exact H|tq; apply quiet_is_unique|lk].
  - destruct (get_h s h) as [x|]; [|exact H]. destruct (_ || _); [exact H|]. apply run_lib_tok; [exact H|tq; apply quiet_get_blk|lk].
  - destruct (get_h s h) as [x|]; [|exact H]. destruct (kind_cls (hk x)); exact H.
  - (* get_mut *) destruct (get_h s h) as [x|]; [|exact H]. destruct (_ && _); [|exact H].
    apply run_lib_tok; [exact H|tq; apply quiet_is_unique|]. intros u s1 H1. destruct u; simpl; auto.
    destruct (hkind_eqb (hk x) KDyn); simpl; auto.
    pose proof (tspec_write_through (hl x) 0 true (ms s1) [] H1) as H2. destruct (write_through (hl x) 0 true (ms s1)) as [[r| |] m2]; simpl in *; exact H2.
  - destruct (get_h s h) as [x|]; [|exact H]. destruct (hk x); try exact H. destruct (can_mut (hm x)); [|exact H].
    apply run_lib_tok; [exact H|tq; apply quiet_try_unique|]. intros u s1 H1. destruct u; simpl; auto.
    pose proof (tspec_write_through (hl x) 0 true (ms s1) [] H1) as H2. destruct (write_through (hl x) 0 true (ms s1)) as [[r| |] m2]; simpl in *; exact H2.
  - destruct (get_h s h) as [x|]; [|exact H]. destruct (hk x); try exact H. destruct (can_consume (hm x)); [|exact H].
    apply run_lib_tok; [exact H|tq; apply quiet_try_unique|]. intros u s1 H1. destruct u; simpl; auto.
  - destruct (get_h s h) as [x|]; [|exact H]. destruct (hk x); try exact H. destruct (can_consume (hm x)); [|exact H].
    apply run_lib_tok; [exact H| |].
    + apply (tspec_bind _ _ _ opt_toks); [apply tspec_try_unwrap|]. intros [v|]; [|apply tspec_ret; auto].
      apply (tspec_bind _ _ _ (fun _ => [])); [apply tspec_drop_cells|intros; apply tspec_ret; auto].
    + intros r s1 H1. destruct r; simpl; auto.
  - destruct (get_h s h) as [x|]; [|exact H]. destruct (hk x); try exact H. destruct (can_consume (hm x)); [|exact H].
    apply run_lib_tok; [exact H|tq; apply quiet_try_unique|]. intros u s1 H1. destruct u; simpl; auto.
  - (* make_mut *) destruct (get_h s h) as [x|]; [|exact H].
    destruct (hk x); try exact H; (destruct (can_mut (hm x)); [|exact H]); (apply run_lib_tok; [exact H| |lk]);
      (tb; [apply tspec_make_mut|]; intros l'; tb; [apply tspec_write_through|intros; apply tspec_ret; auto]).
  - destruct (get_h s h) as [x|]; [|exact H].
    destruct (hk x); try exact H; (destruct (can_mut (hm x)); [|exact H]); (apply run_lib_tok; [exact H| |lk]).
    tb; [apply tspec_make_mut|]. intros l'. tb; [tq; apply quiet_dbg|]. intros _. tb; [apply tspec_write_through|intros; apply tspec_ret; auto].
  - (* unwrap_or_clone *) destruct (get_h s h) as [x|] eqn:Hx; [|exact H]. destruct (hk x) eqn:Kx; try exact H. destruct (can_consume (hm x)); [|exact H].
    apply get_h_some in Hx. destruct (handle_block _ _ _ _ _ G Hx) as (b & Hb & Al & Ok & _).
    destruct Ok as (_ & _ & _ & Ai & _). assert (Ai' : all_init (b_cells b) = true) by (apply Ai; rewrite Kx; [reflexivity|discriminate]).
    pose proof (unwrap_or_clone_tok d (hl x) pf (ms s) [] b Hb Al Ai' H) as P.
    unfold bind. destruct (Arc_unwrap_or_clone d (hl x) pf (ms s)) as [[t| |] m1]; simpl in *; try exact P.
    pose proof (tspec_emit_dtor t m1 [] P) as P2. simpl in P2. exact P2.
  - destruct (get_h s h) as [x|]; [|exact H]. destruct (hk x); try exact H. destruct (can_consume (hm x)); [|exact H].
    apply run_lib_tok; [exact H| |lk]. apply (tspec_bind _ _ _ (fun cs => init_toks cs)); [apply tspec_into_inner|]. intros v.
    apply (tspec_bind _ _ _ (fun _ => [])); [apply tspec_drop_cells|intros; apply tspec_ret; auto].
  - (* deprecated write *) destruct (get_h s h) as [x|]; [|exact H].
    destruct (hk x); try exact H; (destruct (can_mut (hm x)); [|exact H]); (apply run_lib_tok; [exact H| |lk]).
    + apply (tspec_bind _ _ _ (fun t => [t])); [apply tspec_fresh|]. intros t.
      apply (tspec_bind _ _ _ (fun _ => [t])); [tq; apply quiet_try_unique|]. intros [|]; [apply tspec_write_tok|].
      apply (tspec_bind _ _ _ (fun _ => [t])); [tq; apply quiet_Arc_count|]. intros _.
      apply (tspec_bind _ _ _ (fun _ => [])); [apply tspec_emit_dtor|intros; apply tspec_panic].
    + tb; [tq; apply quiet_try_unique|]. intros [|].
      * tb; [apply tspec_write_through|intros; apply tspec_ret; auto].
      * tb; [tq; apply quiet_Arc_count|intros; apply tspec_panic].
  - destruct (get_h s h) as [x|]; [|exact H].
    destruct (hk x); try exact H; (destruct (can_mut (hm x)); [|exact H]); (apply run_lib_tok; [exact H|apply tspec_write_through|lk]).
  - destruct (get_h s h) as [x|]; [|exact H].
    destruct (hk x); try exact H; (destruct (can_mut (hm x)); [|exact H]); (apply run_lib_tok; [exact H|apply tspec_write_through|lk]).
  - (* begin *) destruct (get_h s h) as [x|]; [|exact H]. destruct (begin_info w (hk x)) as [[[nm vk] vm]|]; [|exact H].
    destruct (_ && _); exact H.
  - destruct (frames s) as [|f r]; [exact H|]. unfold STokOk. simpl. rewrite exit_frame_ms. exact H.
  - destruct (frames s) as [|f r] eqn:E; [exact H|]. unfold STokOk. simpl fst. simpl ms. rewrite ?exit_all_ms, ?exit_frame_ms. exact H.
  - destruct (get_h s h) as [x|]; [|exact H]. destruct (get_h s h') as [y|]; [|exact H].
    destruct (hk x); try exact H. destruct (hm x); try exact H. destruct (hk y); try exact H. destruct (can_consume (hm y)); exact H.
  - destruct (get_h s h) as [x|]; [|exact H]. destruct (get_h s h') as [y|]; [|exact H].
    destruct (hk x); try exact H. destruct (hm x); try exact H. destruct (hk y); try exact H. destruct (can_consume (hm y)); try exact H.
    apply run_lib_tok; [exact H|apply tspec_Arc_drop|lk].
  - destruct (get_h s h) as [x|]; [|exact H]. destruct (hk x); exact H.
Qed.

Lemma step_tok' d s o : Inv s -> STokOk s -> STokOk (fst (step d s o)).
Proof.
  intros I H. destruct (dead s) eqn:Hd.
  - unfold step. rewrite Hd. exact H.
  - apply step_tok; auto.
Qed.

Theorem run_tok d ops : forall s, Inv s -> STokOk s -> STokOk (fst (run d s ops)).
Proof.
  induction ops as [|o r IH]; intros s I H; simpl; auto.
  pose proof (step_tok' d s o I H) as H1. pose proof (step_inv d s o I) as I1.
  destruct (step d s o) as [s1 ob]. simpl in *. specialize (IH s1 I1 H1). destruct (run d s1 r) as [s2 obs]. exact IH.
Qed.

Lemma occ_in t l : (0 < occ t l)%nat <-> In t l.
Proof.
  induction l as [|x l IH]; simpl; [split; [lia|tauto]|].
  destruct (N.eqb_spec x t) as [->|Ne]; split; intros H; auto; try lia.
  - right. apply IH. lia.
  - destruct H as [H|H]; [congruence|]. apply IH in H. lia.
Qed.
Lemma occ_nodup l : (forall t, (occ t l <= 1)%nat) -> NoDup l.
Proof.
  induction l as [|x l IH]; intros H; constructor.
  - intros Hin. apply occ_in in Hin. specialize (H x). simpl in H. rewrite N.eqb_refl in H. lia.
  - apply IH. intros t. specialize (H t). simpl in H. lia.
Qed.

(** in every reachable state: no payload value has been destroyed twice; a destroyed value is not stored in any live
    block any more; the values stored in live blocks are pairwise distinct; and all of them were made by [fresh] *)
Theorem reachable_dtor_once s :
  reachable s -> dead s = false ->
  NoDup (dtors (log (ms s))) /\ NoDup (live (heap (ms s))) /\
  (forall t, In t (dtors (log (ms s))) -> ~ In t (live (heap (ms s)))) /\
  (forall t, In t (dtors (log (ms s))) \/ In t (live (heap (ms s))) -> t < ntok (ms s)).
Proof.
  intros R Hd. pose proof (reachable_inv s R Hd) as G. destruct R as (d & ops & ->).
  assert (T0 : STokOk init_st) by (right; intros t; unfold total; simpl; split; lia).
  pose proof (run_tok d ops init_st (inv_of_good _ good_init) T0) as T.
  destruct T as [T|T]; [rewrite (g_ub _ _ _ G) in T; discriminate|].
  set (m := ms (fst (run d init_st ops))) in *.
  repeat split.
  - apply occ_nodup. intros t. specialize (T t). unfold total in T. lia.
  - apply occ_nodup. intros t. specialize (T t). unfold total in T. lia.
  - intros t Hin Hl. apply occ_in in Hin. apply occ_in in Hl. specialize (T t). unfold total in T. lia.
  - intros t [Hin|Hin]; apply occ_in in Hin; specialize (T t); unfold total in T; apply T; lia.
Qed.
