(** * Guard.v — the reference-count overflow guard of [Arc::clone], with the increment modulo 2^64. *)
From Coq Require Import NArith List Bool Lia.
From TV Require Import Mech MechProofs.
Import ListNotations.
Open Scope N_scope.

(** what the translator reports about `if <x> <op> MAX_REFCOUNT { <action> }` after the fetch_add *)
Inductive guard_kind := GuardOldGt | GuardOldGe | GuardUnknown.
Inductive guard_action := ActAbort | ActOther.
Inductive abort_kind := AbortProcess          (* std::process::abort *)
                      | AbortDoublePanic      (* panic while a guard whose Drop panics is live: panic-in-panic aborts *)
                      | AbortUnknown.

Inductive clone_outcome := COk (newcount : N) | CAbort | CStuck.

Definition guard_fires (g : guard_kind) (maxrc old : N) : option bool :=
  match g with
  | GuardOldGt => Some (maxrc <? old)
  | GuardOldGe => Some (maxrc <=? old)
  | GuardUnknown => None
  end.

(** one clone: the count is incremented modulo 2^64 first, then the OLD value is tested *)
Definition clone_model (g : guard_kind) (a : guard_action) (maxrc : option N) (c : N) : clone_outcome :=
  match maxrc, a with
  | Some m, ActAbort =>
    match guard_fires g m c with
    | Some true => CAbort
    | Some false => COk ((c + 1) mod usize_mod)
    | None => CStuck
    end
  | _, _ => CStuck
  end.

Definition isize_max : N := 2 ^ 63 - 1.

Theorem guard_exact c :
  c < usize_mod ->
  (c <= isize_max -> clone_model GuardOldGt ActAbort (Some isize_max) c = COk (c + 1) /\ c + 1 < usize_mod) /\
  (isize_max < c -> clone_model GuardOldGt ActAbort (Some isize_max) c = CAbort).
Proof.
  intros Hc. unfold clone_model, guard_fires, isize_max, usize_mod in *.
  assert (2 ^ 63 < 2 ^ 64) by (apply N.pow_lt_mono_r; lia).
  split; intros H'.
  - assert ((2 ^ 63 - 1 <? c) = false) as -> by (apply N.ltb_ge; lia).
    rewrite N.mod_small by lia. split; [reflexivity|lia].
  - assert ((2 ^ 63 - 1 <? c) = true) as -> by (apply N.ltb_lt; lia). reflexivity.
Qed.

(** no wrap-around: whatever sequence of clones is attempted from a count that is at least 1, the count only
    grows until a clone aborts -- it never comes back to a smaller value *)
Fixpoint clones (n : nat) (c : N) : option N :=
  match n with
  | O => Some c
  | S n' => match clone_model GuardOldGt ActAbort (Some isize_max) c with
            | COk c' => clones n' c'
            | _ => None
            end
  end.

Theorem never_wraps n : forall c c', 1 <= c -> c < usize_mod -> clones n c = Some c' -> c <= c' /\ c' < usize_mod /\ c' = c + N.of_nat n.
Proof.
  induction n as [|n IH]; intros c c' H1 H2 H; cbn [clones] in H.
  - inversion H; subst. split; [lia|]. split; [auto|lia].
  - destruct (N.le_gt_cases c isize_max) as [L|L].
    + destruct (guard_exact c H2) as [A _]. destruct (A L) as [E Hlt]. rewrite E in H.
      destruct (IH (c + 1) c') as (X & Y & Z); auto; try lia.
    + destruct (guard_exact c H2) as [_ B]. rewrite (B L) in H. discriminate.
Qed.

(** the handle machine's [Arc_clone] is this guard *)
Theorem mech_clone_is_guarded hp lg u nt l b :
  nth_error hp l = Some b -> b_alive b = true -> b_cnt b <= 2 ^ 63 ->
  match clone_model GuardOldGt ActAbort (Some isize_max) (b_cnt b), Arc_clone l (mkM hp lg u nt) with
  | COk c', (Ret l', m') => l' = l /\ nth_error (heap m') l = Some (set_cnt b c')
  | CAbort, (Aborted, _) => True
  | _, _ => False
  end.
Proof.
  intros Hb Al Le. rewrite (Arc_clone_eq hp lg u nt l b Hb Al Le).
  unfold clone_model, guard_fires. fold max_refcount. change isize_max with max_refcount.
  destruct (max_refcount <? b_cnt b) eqn:E; auto.
  apply N.ltb_ge in E. unfold max_refcount in E. rewrite mod_inc by auto. split; auto.
  simpl. apply nth_upd_same. apply nth_some_lt in Hb; auto.
Qed.
