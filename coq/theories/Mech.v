(** * Mech.v — the sequential handle machine.

    An executable model of every owning-handle operation of the crate, for all
    handle kinds and conversion edges, at the granularity of the crate's own
    primitives: [fetch_add]/[fetch_sub]/[load] on the count (with the source's
    site names), [Box::from_raw] (drop glue chosen by the handle's static view
    type, then dealloc), [alloc], payload-cell reads and writes, calls to the
    payload's [Clone], panics and [abort].  Library functions are written as
    compositions of those primitives, one Gallina definition per Rust function,
    with [ManuallyDrop]/[mem::forget]/[ptr::read] appearing as "no drop here"
    and scope ends as explicit drops.

    The client language is a flat list of operations; callback bodies
    ([with_arc], [with_arc_mut], [with_raw_offset_arc], [ArcBorrow::with_arc])
    are bracketed by [OBegin]/[OEnd] with an explicit frame stack, and [OPanic]
    unwinds every open frame (running what the crate's drop guards run).

    Model only: no proofs in this file (they are in MechProofs.v), so that the
    model still extracts and runs when a proof breaks. *)
From Coq Require Import NArith List Bool Arith.
Import ListNotations.
Open Scope N_scope.

(** ** Heap *)

Definition tok := N.
Definition loc := nat.

(** allocation classes (what the block was built as; fixes which handle kinds may view it) *)
Inductive bcls :=
| CS      (* ArcInner<Tok>                                   one cell *)
| CB      (* ArcInner<TokB> (byte-aligned second union type)  one cell *)
| CHL     (* ArcInner<HeaderSlice<HeaderWithLength<HTok>,[Tok]>> : header, recorded length, cells *)
| CHS     (* ArcInner<HeaderSlice<HTok,[Tok]>> : header, cells *)
| CSl.    (* ArcInner<[Tok]> = ArcInner<HeaderSlice<(),[Tok]>> : cells *)

Record block := mkB {
  b_cnt : N;                       (* the AtomicUsize, modulo 2^64 *)
  b_alive : bool;                  (* not yet returned to the allocator *)
  b_cls : bcls;
  b_hdr : option tok;              (* header token (always initialised) *)
  b_reclen : N;                    (* HeaderWithLength.length (CHL only) *)
  b_cells : list (tok * bool) }.   (* element tokens with "initialised" flag *)

Definition dummy_block : block := mkB 0 false CS None 0 [].

(** the five atomic sites of the crate (names as the translator reports them) *)
Inductive site := SStrong | SClone | SCount | SDec | SAcq.

Inductive event :=
| EAlloc (l : loc)
| EDealloc (l : loc)
| EDtor (t : tok)
| EClone (t t' : tok)
| EAtomic (s : site) (old : N)
| EAbort.

Record mstate := mkM {
  heap : list block;
  log : list event;       (* most recent first *)
  ub : bool;              (* sticky: something undefined happened (use after free, double free, uninit drop ...) *)
  ntok : N }.

Definition usize_mod : N := 2 ^ 64.
Definition max_refcount : N := 2 ^ 63 - 1.     (* isize::MAX *)

Fixpoint upd {A} (l : list A) (i : nat) (x : A) : list A :=
  match l, i with
  | [], _ => []
  | _ :: r, O => x :: r
  | a :: r, S i' => a :: upd r i' x
  end.

(** result of a library call *)
Inductive res (A : Type) := Ret (a : A) | Panicked | Aborted.
Arguments Ret {A} a. Arguments Panicked {A}. Arguments Aborted {A}.

Definition M (A : Type) := mstate -> res A * mstate.
Definition ret {A} (a : A) : M A := fun s => (Ret a, s).
Definition bind {A B} (m : M A) (f : A -> M B) : M B :=
  fun s => match m s with
           | (Ret a, s') => f a s'
           | (Panicked, s') => (Panicked, s')
           | (Aborted, s') => (Aborted, s')
           end.
Notation "x <- m ;; f" := (bind m (fun x => f)) (at level 61, m at next level, right associativity).
Notation "m ;;; f" := (bind m (fun _ => f)) (at level 61, right associativity).
Definition panic {A} : M A := fun s => (Panicked, s).
Definition emit (e : event) : M unit := fun s => (Ret tt, mkM (heap s) (e :: log s) (ub s) (ntok s)).
Definition set_ub : M unit := fun s => (Ret tt, mkM (heap s) (log s) true (ntok s)).
Definition abort {A} : M A := fun s => (Aborted, mkM (heap s) (EAbort :: log s) (ub s) (ntok s)).
Definition fresh : M tok := fun s => (Ret (ntok s), mkM (heap s) (log s) (ub s) (ntok s + 1)).

(** read a block through a handle: undefined if it is gone *)
Definition get_blk (l : loc) : M block := fun s =>
  match nth_error (heap s) l with
  | Some b => if b_alive b then (Ret b, s) else (Ret b, mkM (heap s) (log s) true (ntok s))
  | None => (Ret dummy_block, mkM (heap s) (log s) true (ntok s))
  end.
Definition put_blk (l : loc) (b : block) : M unit := fun s =>
  (Ret tt, mkM (upd (heap s) l b) (log s) (ub s) (ntok s)).

Definition set_cnt (b : block) (c : N) : block := mkB c (b_alive b) (b_cls b) (b_hdr b) (b_reclen b) (b_cells b).
Definition set_cells (b : block) (cs : list (tok * bool)) : block := mkB (b_cnt b) (b_alive b) (b_cls b) (b_hdr b) (b_reclen b) cs.
Definition set_hdr (b : block) (h : option tok) : block := mkB (b_cnt b) (b_alive b) (b_cls b) h (b_reclen b) (b_cells b).
Definition set_dead (b : block) : block := mkB (b_cnt b) false (b_cls b) (b_hdr b) (b_reclen b) (b_cells b).

(** *** the atomic primitives *)
Definition fetch_add (l : loc) (s : site) : M N :=
  b <- get_blk l ;; emit (EAtomic s (b_cnt b)) ;;; put_blk l (set_cnt b ((b_cnt b + 1) mod usize_mod)) ;;; ret (b_cnt b).
Definition fetch_sub (l : loc) (s : site) : M N :=
  b <- get_blk l ;; emit (EAtomic s (b_cnt b)) ;;; put_blk l (set_cnt b ((b_cnt b + usize_mod - 1) mod usize_mod)) ;;; ret (b_cnt b).
Definition load (l : loc) (s : site) : M N :=
  b <- get_blk l ;; emit (EAtomic s (b_cnt b)) ;;; ret (b_cnt b).

(** *** drop glue and release: [Box::from_raw(ptr)] of the (re-fattened) ArcInner pointer.
    [vinit = true]: the handle's static type has initialised elements ([T], [[T]] ...): every element
    destructor runs (running one on an uninitialised cell is undefined).
    [vinit = false]: the elements are typed [MaybeUninit<T>]: no element destructor runs.
    The header is always dropped.  Field order: header, then elements. *)
Fixpoint drop_cells (vinit : bool) (cs : list (tok * bool)) : M unit :=
  match cs with
  | [] => ret tt
  | (t, i) :: r =>
    (if vinit then (if i then emit (EDtor t) else set_ub) else ret tt) ;;; drop_cells vinit r
  end.
Definition drop_hdr (h : option tok) : M unit :=
  match h with Some t => emit (EDtor t) | None => ret tt end.
Definition box_free (l : loc) (vinit : bool) : M unit :=
  b <- get_blk l ;; drop_hdr (b_hdr b) ;;; drop_cells vinit (b_cells b) ;;; emit (EDealloc l) ;;; put_blk l (set_dead b).
(** [Box::from_raw(ptr).data] : move the payload out (no destructor), free the box *)
Definition box_take (l : loc) : M (list (tok * bool)) :=
  b <- get_blk l ;; emit (EDealloc l) ;;; put_blk l (set_dead b) ;;; ret (b_cells b).

Definition alloc_block (c : bcls) (h : option tok) (rl : N) (cs : list (tok * bool)) : M loc := fun s =>
  let l := length (heap s) in
  (Ret l, mkM (heap s ++ [mkB 1 true c h rl cs]) (EAlloc l :: log s) (ub s) (ntok s)).

Fixpoint fresh_cells (n : nat) (init : bool) : M (list (tok * bool)) :=
  match n with
  | O => ret []
  | S n' => t <- (if init then fresh else ret 0) ;; r <- fresh_cells n' init ;; ret ((t, init) :: r)
  end.

(** ** Library functions (loc-level: a handle value is the block it points into) *)

(** [impl Clone for Arc]: fetch_add(1, Relaxed); if old > MAX_REFCOUNT { abort() } *)
Definition Arc_clone (l : loc) : M loc :=
  old <- fetch_add l SClone ;; if max_refcount <? old then abort else ret l.
(** [Arc::drop_inner]: fetch_sub(1, Release) != 1 => return; load(Acquire); drop_slow = Box::from_raw *)
Definition Arc_drop (l : loc) (vinit : bool) : M unit :=
  old <- fetch_sub l SDec ;; if old =? 1 then (load l SAcq ;;; box_free l vinit) else ret tt.
Definition Arc_count (l : loc) : M N := load l SCount.
Definition Arc_strong_count (l : loc) : M N := load l SStrong.
Definition Arc_is_unique (l : loc) : M bool := c <- Arc_count l ;; ret (c =? 1).
(** [Arc::new]: Box::new(ArcInner { count: 1, data }) *)
Definition Arc_new (t : tok) : M loc := alloc_block CS None 0 [(t, true)].
(** [ArcBorrow::clone_arc]: let arc = from_raw(p); forget(arc.clone()); arc *)
Definition ArcBorrow_clone_arc (l : loc) : M loc := Arc_clone l ;;; ret l.
(** [ArcBorrow::with_arc(|a| Arc::strong_count(a))]: transient in ManuallyDrop: no drop *)
Definition ArcBorrow_strong_count (l : loc) : M N := Arc_strong_count l.
(** [OffsetArc::clone_arc] = with_arc(|a| a.clone()); [OffsetArc::clone] = into_raw_offset(clone_arc()) *)
Definition OffsetArc_clone_arc (l : loc) : M loc := Arc_clone l.
Definition OffsetArc_clone (l : loc) : M loc := OffsetArc_clone_arc l.
(** [OffsetArc::drop] = let _ = Arc::from_raw_offset(copy of self) *)
Definition OffsetArc_drop (l : loc) : M unit := Arc_drop l true.
(** [ThinArc::clone] = with_protected_arc(|a| protected_into_thin(a.clone())) *)
Definition ThinArc_clone (l : loc) : M loc := Arc_clone l.
(** [ThinArc::drop] = let _ = protected_from_thin(copy of self) *)
Definition ThinArc_drop (l : loc) : M unit := Arc_drop l true.
(** [ArcUnion::clone] = match borrow() { First(x) => from_first(x.clone_arc()), Second(x) => from_second(x.clone_arc()) } *)
Definition ArcUnion_clone (l : loc) : M loc := ArcBorrow_clone_arc l.
(** [ArcUnion::drop] = match borrow() { First(x) | Second(x) => let _ = Arc::from_raw(&*x) } *)
Definition ArcUnion_drop (l : loc) : M unit := Arc_drop l true.

(** [Arc::into_thin]: assert_eq!(header.length, slice.len()) — a failing assert unwinds and drops [a] *)
Definition Arc_into_thin (l : loc) : M loc :=
  b <- get_blk l ;;
  if b_reclen b =? N.of_nat (length (b_cells b)) then ret l
  else (Arc_drop l true ;;; panic).

(** the payload's [Clone::clone] on cell 0 (user code: may panic) *)
Definition call_clone (l : loc) (pf : bool) : M tok :=
  b <- get_blk l ;;
  match b_cells b with
  | (t, true) :: _ => if pf then panic else (t' <- fresh ;; emit (EClone t t') ;;; ret t')
  | _ => set_ub ;;; panic
  end.

(** [Arc::make_mut] / [make_unique]: if !is_unique { *this = Arc::new(T::clone(this)) } — the assignment
    drops the old handle only after the clone and the new allocation succeeded *)
Definition Arc_make_mut (l : loc) (pf : bool) : M loc :=
  u <- Arc_is_unique l ;;
  if u then ret l
  else (t' <- call_clone l pf ;; l' <- Arc_new t' ;; Arc_drop l true ;;; ret l').

(** [debug_assert_eq!(Arc::count(..), 1)] in UniqueArc::from_arc / from_arc_ref / into_inner: present in
    builds with debug assertions ([d = true]) only *)
Definition dbg_unique_assert (d : bool) (l : loc) : M unit :=
  if d then (c <- Arc_count l ;; if c =? 1 then ret tt else panic) else ret tt.
(** [Arc::try_unique]: Ok(UniqueArc::from_arc(this)) iff is_unique *)
Definition Arc_try_unique (d : bool) (l : loc) : M bool :=
  u <- Arc_is_unique l ;; if u then (dbg_unique_assert d l ;;; ret true) else ret false.
(** [UniqueArc::into_inner]: ManuallyDrop(this.0); Box::from_raw(ptr).data *)
Definition UniqueArc_into_inner (d : bool) (l : loc) : M (list (tok * bool)) :=
  dbg_unique_assert d l ;;; box_take l.
(** [Arc::try_unwrap] = try_unique(this).map(UniqueArc::into_inner) *)
Definition Arc_try_unwrap (d : bool) (l : loc) : M (option (list (tok * bool))) :=
  u <- Arc_try_unique d l ;; if u then (v <- UniqueArc_into_inner d l ;; ret (Some v)) else ret None.
(** [Arc::unwrap_or_clone] = try_unwrap(this).unwrap_or_else(|this| T::clone(&this)) — the closure's
    argument is dropped when the closure returns or unwinds *)
Definition Arc_unwrap_or_clone (d : bool) (l : loc) (pf : bool) : M tok :=
  r <- Arc_try_unwrap d l ;;
  match r with
  | Some ((t, _) :: _) => ret t
  | Some [] => set_ub ;;; ret 0
  | None => fun s =>
      match call_clone l pf s with
      | (Ret t', s') => (Arc_drop l true ;;; ret t') s'
      | (Panicked, s') => (Arc_drop l true ;;; panic) s'
      | (Aborted, s') => (Aborted, s')
      end
  end.

(** write a fresh token into cell [i] through a [&mut]; the old value is dropped by the assignment
    ([drop_old]) or overwritten without a destructor ([MaybeUninit::write]) *)
Fixpoint write_cell (cs : list (tok * bool)) (i : nat) (t : tok) : option (list (tok * bool) * (tok * bool)) :=
  match cs, i with
  | [], _ => None
  | c :: r, O => Some ((t, true) :: r, c)
  | c :: r, S i' => match write_cell r i' t with Some (r', o) => Some (c :: r', o) | None => None end
  end.
Definition write_tok (l : loc) (i : nat) (t : tok) (drop_old : bool) : M unit :=
  b <- get_blk l ;;
  match write_cell (b_cells b) i t with
  | Some (cs', (o, oi)) =>
    put_blk l (set_cells b cs') ;;; (if drop_old then (if oi then emit (EDtor o) else set_ub) else ret tt)
  | None => set_ub       (* out of bounds: the client checks first *)
  end.
Definition has_cell (l : loc) (i : nat) : M bool :=
  b <- get_blk l ;; ret (match nth_error (b_cells b) i with Some _ => true | None => false end).
(** `if let Some(e) = slice.get_mut(i) { *e = Tok::new() }` *)
Definition write_through (l : loc) (i : nat) (drop_old : bool) : M bool :=
  h <- has_cell l i ;; if h then (t <- fresh ;; write_tok l i t drop_old ;;; ret true) else ret false.

(** ** Handle kinds *)
Inductive hkind :=
| KArc | KUniq | KOff | KUn1 | KUn2 | KRaw | KArcB
| KFat | KThin | KRawThin | KProt | KErased | KDyn
| KMU | KMA | KSlice | KRawSlice | KMUS | KMAS | KUS | KMUH | KUH | KAH
| KForgotten.

Definition hkind_code (k : hkind) : N :=
  match k with
  | KArc => 0 | KUniq => 1 | KOff => 2 | KUn1 => 3 | KUn2 => 4 | KRaw => 5 | KArcB => 6
  | KFat => 7 | KThin => 8 | KRawThin => 9 | KProt => 10 | KErased => 11 | KDyn => 12
  | KMU => 13 | KMA => 14 | KSlice => 15 | KRawSlice => 16 | KMUS => 17 | KMAS => 18 | KUS => 19
  | KMUH => 20 | KUH => 21 | KAH => 22 | KForgotten => 23
  end.

Definition hkind_eqb (a b : hkind) : bool := hkind_code a =? hkind_code b.

(** borrow mode of a table entry *)
Inductive hmode := MOwned | MShared | MMut.

Record handle := mkH { hk : hkind; hl : loc; hm : hmode }.

(** kinds that are [Arc<X>] for some X (cloned/dropped/counted by Arc's own impls) *)
Definition is_arc_kind (k : hkind) : bool :=
  match k with
  | KArc | KArcB | KFat | KProt | KErased | KDyn | KMA | KSlice | KMAS | KAH => true
  | _ => false
  end.
Definition is_unique_kind (k : hkind) : bool :=
  match k with KUniq | KMU | KMUS | KUS | KMUH | KUH => true | _ => false end.
Definition is_raw_kind (k : hkind) : bool :=
  match k with KRaw | KRawThin | KRawSlice => true | _ => false end.
(** elements typed [MaybeUninit]: the drop glue runs no element destructor *)
Definition uninit_view (k : hkind) : bool :=
  match k with KMU | KMA | KMUS | KMAS | KMUH => true | _ => false end.

(** which allocation class a kind views *)
Definition kind_cls (k : hkind) : option bcls :=
  match k with
  | KArc | KUniq | KOff | KUn1 | KRaw | KErased | KDyn | KMU | KMA => Some CS
  | KUn2 | KArcB => Some CB
  | KFat | KThin | KRawThin | KProt => Some CHL
  | KSlice | KRawSlice | KMUS | KMAS | KUS => Some CSl
  | KMUH | KUH | KAH => Some CHS
  | KForgotten => None
  end.

(** ** Client operations *)
Inductive op :=
| ONew (c : N) (n : N) (r : N)      (* constructor code, length, recorded length *)
| OClone (h : nat)
| ODrop (h : nat)
| OForget (h : nat)
| OConv (c : N) (h : nat)
| OCloneArc (h : nat)
| OCount (acc : N) (h : nat)
| OIsUnique (h : nat)
| ORead (h : nat)
| OPtrOf (h : nat)
| OGetMut (h : nat)
| OGetUnique (h : nat)
| OTryUnique (h : nat)
| OTryUnwrap (h : nat)
| OTryFrom (h : nat)
| OMakeMut (h : nat) (pf : bool)
| OMakeUnique (h : nat) (pf : bool)
| OUnwrapOrClone (h : nat) (pf : bool)
| OIntoInner (h : nat)
| ODeprecatedWrite (h : nat) (i : nat)
| OWriteSlot (h : nat) (i : nat)
| OUniqMut (h : nat) (i : nat)
| OBegin (w : N) (h : nat)
| OEnd
| OPanic
| OReplace (h h' : nat)
| OAssign (h h' : nat)
| OUnionAcc (h : nat)
| OBad.

Record frame := mkF { f_h : nat; f_prev_k : hkind; f_prev_m : hmode; f_w : N }.

Record st := mkSt {
  ms : mstate;
  tbl : list (option handle);
  frames : list frame;
  skip : nat;            (* >0: unwinding out of callback bodies; counts the [OEnd]s still to be skipped *)
  dead : bool }.         (* the process aborted *)

Definition init_st : st := mkSt (mkM [] [] false 0) [] [] 0 false.

(** observation status codes *)
Definition S_OK : N := 0.
Definition S_SKIP : N := 1.
Definition S_PANIC : N := 2.
Definition S_DECLINED : N := 3.
Definition S_ABORT : N := 4.

Definition site_code (s : site) : N :=
  match s with SStrong => 0 | SClone => 1 | SCount => 2 | SDec => 3 | SAcq => 4 end.
Definition event_code (e : event) : list N :=
  match e with
  | EAlloc l => [4; N.of_nat l]
  | EDealloc l => [2; N.of_nat l]
  | EDtor t => [1; t]
  | EClone t t' => [3; t; t']
  | EAtomic s o => [5; site_code s; o]
  | EAbort => [6]
  end.

Definition get_h (s : st) (h : nat) : option handle :=
  match nth_error (tbl s) h with Some (Some x) => Some x | _ => None end.

Definition with_ms (s : st) (m : mstate) : st := mkSt m (tbl s) (frames s) (skip s) (dead s).
Definition set_h (s : st) (h : nat) (x : option handle) : st :=
  mkSt (ms s) (upd (tbl s) h x) (frames s) (skip s) (dead s).
Definition push_h (s : st) (x : handle) : st :=
  mkSt (ms s) (tbl s ++ [Some x]) (frames s) (skip s) (dead s).

(** events logged since [m0] (oldest first) *)
Definition new_events (m0 m1 : mstate) : list event :=
  rev (firstn (length (log m1) - length (log m0)) (log m1)).
Definition obs_of (status : N) (rets : list N) (m0 m1 : mstate) : list N :=
  status :: rets ++ [99999999] ++ flat_map event_code (new_events m0 m1).

(** run a library computation and fold its outcome into the client state *)
Definition run_lib {A} (s : st) (m : M A) (k : A -> st -> st * N * list N) : st * list N :=
  match m (ms s) with
  | (Ret a, m1) => let '(s', status, rets) := k a (with_ms s m1) in (s', obs_of status rets (ms s) (ms s'))
  | (Panicked, m1) => (with_ms s m1, obs_of S_PANIC [] (ms s) m1)
  | (Aborted, m1) => (mkSt m1 (tbl s) (frames s) (skip s) true, obs_of S_ABORT [] (ms s) m1)
  end.

Definition skip_obs : list N := [S_SKIP; 99999999].

(** what the kind's own [Clone] impl is (None: not Clone) and the kind of the result *)
Definition clone_impl (k : hkind) : option ((loc -> M loc) * hkind) :=
  match k with
  | KOff => Some (OffsetArc_clone, KOff)
  | KThin => Some (ThinArc_clone, KThin)
  | KUn1 => Some (ArcUnion_clone, KUn1)
  | KUn2 => Some (ArcUnion_clone, KUn2)
  | KForgotten => None
  | _ => if is_arc_kind k then Some (Arc_clone, k) else None
  end.

(** the kind's [Drop] impl (None: raw pointers and forgotten handles have none) *)
Definition drop_impl (k : hkind) : option (loc -> M unit) :=
  match k with
  | KOff => Some OffsetArc_drop
  | KThin => Some ThinArc_drop
  | KUn1 | KUn2 => Some ArcUnion_drop
  | KRaw | KRawThin | KRawSlice | KForgotten => None
  | _ => Some (fun l => Arc_drop l (negb (uninit_view k)))   (* Arc<X> and UniqueArc<X> = transparent Arc<X> *)
  end.

(** count-neutral conversions: [conv c k] = kind of the result when conversion [c] applies to kind [k].
    The third component says whether the conversion inspects the block ([into_thin]'s assert). *)
Definition conv_table : list (N * hkind * hkind) :=
  [ (0, KArc, KRaw);            (* Arc::into_raw *)
    (1, KRaw, KArc);            (* Arc::from_raw *)
    (2, KArc, KOff);            (* Arc::into_raw_offset *)
    (3, KOff, KArc);            (* Arc::from_raw_offset *)
    (4, KArc, KUn1);            (* ArcUnion::from_first *)
    (5, KArcB, KUn2);           (* ArcUnion::from_second *)
    (7, KFat, KThin);           (* Arc::into_thin (the length assert is modelled in [step]) *)
    (8, KThin, KFat);           (* Arc::from_thin *)
    (9, KThin, KRawThin);       (* ThinArc::into_raw *)
    (10, KRawThin, KThin);      (* ThinArc::from_raw *)
    (11, KArc, KErased);        (* From<Arc<T>> for Arc<HeaderSlice<(),T>> *)
    (12, KErased, KArc);        (* From<Arc<HeaderSlice<(),T>>> for Arc<T> *)
    (13, KUniq, KArc);          (* UniqueArc::shareable *)
    (13, KUS, KSlice);
    (13, KUH, KAH);
    (13, KMU, KMA);
    (13, KMUS, KMAS);
    (15, KArc, KDyn);           (* unsizing: from_raw(into_raw(a) as *const dyn Tr) / unsize::Coercion *)
    (17, KSlice, KRawSlice);    (* Arc::into_raw on a slice *)
    (18, KRawSlice, KSlice);    (* Arc::from_raw_slice *)
    (19, KThin, KProt);         (* Arc::protected_from_thin *)
    (20, KProt, KThin);         (* Arc::protected_into_thin *)
    (21, KArc, KRaw);           (* arc-swap RefCnt::into_ptr for Arc *)
    (22, KRaw, KArc);           (* arc-swap RefCnt::from_ptr *)
    (23, KThin, KRawThin);      (* arc-swap RefCnt::into_ptr for ThinArc *)
    (24, KRawThin, KThin) ].    (* arc-swap RefCnt::from_ptr for ThinArc *)

Definition conv_target (c : N) (k : hkind) : option hkind :=
  match find (fun e => (fst (fst e) =? c) && hkind_eqb (snd (fst e)) k) conv_table with
  | Some e => Some (snd e)
  | None => None
  end.

(** [assume_init] family (conversion code 16): requires every cell written (documented precondition) *)
Definition assume_target (k : hkind) : option hkind :=
  match k with
  | KMU => Some KUniq | KMA => Some KArc | KMUS => Some KUS | KMAS => Some KSlice | KMUH => Some KUH
  | _ => None
  end.

Definition all_init (cs : list (tok * bool)) : bool := forallb snd cs.

(** data-pointer offsets inside the block, by class (64-bit; Tok/HTok are 16-byte, 8-aligned; TokB 3-byte, 1-aligned):
    (offset of as_ptr / Deref address, offset of element 0) *)
Definition data_off (c : bcls) : N := 8.
Definition elem_off (c : bcls) : N :=
  match c with CS | CB | CSl => 8 | CHL => 32 | CHS => 24 end.

(** visible tokens through a handle: header then elements; uninitialised views show only the shape *)
Definition read_view (k : hkind) (b : block) : list N :=
  let h := match b_hdr b with Some t => [t] | None => [] end in
  if uninit_view k then N.of_nat (length (b_cells b)) :: h
  else N.of_nat (length (b_cells b)) :: h ++ map fst (b_cells b).

(** shared-reference ops are allowed in every mode; [&mut] ops need [MOwned] or [MMut]; consuming ops [MOwned] *)
Definition can_mut (m : hmode) : bool := match m with MShared => false | _ => true end.
Definition can_consume (m : hmode) : bool := match m with MOwned => true | _ => false end.

(** constructor table: code -> (kind, class, has header, initialised elements, fixed length (None = use n)) *)
Definition new_table : list (N * (hkind * bcls * bool * bool * option nat)) :=
  [ (0, (KArc, CS, false, true, Some 1%nat));     (* Arc::new *)
    (1, (KUniq, CS, false, true, Some 1%nat));    (* UniqueArc::new *)
    (2, (KArcB, CB, false, true, Some 1%nat));    (* Arc::<TokB>::new *)
    (3, (KFat, CHL, true, true, None));           (* Arc::from_header_and_iter(HeaderWithLength::new(h, r), items) *)
    (4, (KThin, CHL, true, true, None));          (* ThinArc::from_header_and_iter *)
    (5, (KMU, CS, false, false, Some 1%nat));     (* UniqueArc::new_uninit *)
    (6, (KMA, CS, false, false, Some 1%nat));     (* Arc::new_uninit *)
    (7, (KMUS, CSl, false, false, None));         (* UniqueArc::new_uninit_slice *)
    (8, (KMAS, CSl, false, false, None));         (* Arc::new_uninit_slice *)
    (9, (KMUH, CHS, true, false, None));          (* UniqueArc::from_header_and_uninit_slice *)
    (10, (KSlice, CSl, false, true, None));       (* Arc::<[Tok]>::from(Vec) *)
    (11, (KAH, CHS, true, true, None)) ].         (* Arc::from_header_and_iter(HTok, items) *)

Definition new_info (c : N) : option (hkind * bcls * bool * bool * option nat) :=
  match find (fun e => fst e =? c) new_table with Some e => Some (snd e) | None => None end.

Definition do_new (s : st) (c n r : N) : st * list N :=
  if 64 <? n then (s, skip_obs) else
  match new_info c with
  | None => (s, skip_obs)
  | Some (k, cls, hashdr, init, fixed) =>
    let len := match fixed with Some x => x | None => N.to_nat n end in
    let rl := if c =? 3 then r else N.of_nat len in
    run_lib s (h <- (if hashdr then (t <- fresh ;; ret (Some t)) else ret None) ;;
               cs <- fresh_cells len init ;;
               alloc_block cls h rl cs)
            (fun l s' => (push_h s' (mkH k l MOwned), S_OK, [N.of_nat l]))
  end.

(** the view a callback gets: code, kind of the borrowed handle -> (needs &mut, view kind, view mode) *)
Definition begin_table : list (N * hkind * (bool * hkind * hmode)) :=
  [ (0, KThin, (false, KFat, MShared));     (* ThinArc::with_arc: &Arc<HeaderSliceWithLengthUnchecked> *)
    (1, KThin, (true, KProt, MMut));        (* ThinArc::with_arc_mut: &mut Arc<..Protected> *)
    (2, KOff, (false, KArc, MShared));      (* OffsetArc::with_arc: &Arc<T> *)
    (3, KArc, (false, KOff, MShared));      (* Arc::with_raw_offset_arc: &OffsetArc<T> *)
    (4, KArc, (false, KArc, MShared));      (* a.borrow_arc().with_arc: &Arc<T> *)
    (4, KOff, (false, KArc, MShared)) ].    (* o.borrow_arc().with_arc *)

Definition begin_info (w : N) (k : hkind) : option (bool * hkind * hmode) :=
  match find (fun e => (fst (fst e) =? w) && hkind_eqb (snd (fst e)) k) begin_table with
  | Some e => Some (snd e)
  | None => None
  end.

Definition hmode_eqb (a b : hmode) : bool :=
  match a, b with MOwned, MOwned | MShared, MShared | MMut, MMut => true | _, _ => false end.

(** end of a callback: what the crate does when the closure returns or unwinds.
    with_arc_mut's DropGuard writes the (possibly replaced) pointer back: the ThinArc now targets
    whatever the transient Arc targets.  Every other callback restores the borrowed handle as it was
    (the transient was in ManuallyDrop: no count is released).  The entry is expected to still be the
    view this frame installed (the check cannot fail from [init_st]; it spares the proofs a frame invariant). *)
Definition exit_frame (s : st) (f : frame) : st :=
  match get_h s (f_h f) with
  | Some x =>
    match begin_info (f_w f) (f_prev_k f) with
    | Some (_, vk, vm) =>
      if hkind_eqb (hk x) vk && hmode_eqb (hm x) vm
      then set_h s (f_h f) (Some (mkH (f_prev_k f) (hl x) (f_prev_m f)))
      else s
    | None => s
    end
  | None => s
  end.

Fixpoint exit_all (s : st) (fs : list frame) : st :=
  match fs with
  | [] => s
  | f :: r => exit_all (exit_frame s f) r
  end.

(** count accessors: code -> applies to kind? and the library function *)
Definition count_impl (acc : N) (k : hkind) : option (loc -> M N) :=
  if acc =? 0 then (if is_arc_kind k then Some Arc_count else None)                   (* Arc::count *)
  else if acc =? 1 then
    (if is_arc_kind k then Some Arc_strong_count else                                  (* Arc::strong_count *)
       match k with
       | KThin | KOff => Some Arc_strong_count                                         (* X::strong_count via with_arc *)
       | KUn1 | KUn2 => Some ArcBorrow_strong_count                                    (* ArcUnion::strong_count *)
       | _ => None end)
  else if acc =? 2 then
    match k with
    | KArc | KOff | KArcB => Some ArcBorrow_strong_count                               (* borrow_arc().strong_count *)
    | KUn1 | KUn2 => Some ArcBorrow_strong_count                                       (* ArcUnionBorrow::strong_count(&u.borrow()) *)
    | _ => None end
  else None.

Definition owners (t : list (option handle)) (l : loc) : nat :=
  length (filter (fun o => match o with Some x => Nat.eqb (hl x) l | None => false end) t).

Definition declined (s : st) : st * N * list N := (s, S_DECLINED, []).

Definition step (d : bool) (s : st) (o : op) : st * list N :=
  if dead s then (s, skip_obs) else
  match skip s with
  | S d =>
    (* unwinding past the rest of the callback bodies *)
    match o with
    | OBegin _ _ => (mkSt (ms s) (tbl s) (frames s) (S (S d)) (dead s), skip_obs)
    | OEnd => (mkSt (ms s) (tbl s) (frames s) d (dead s), skip_obs)
    | _ => (s, skip_obs)
    end
  | O =>
  match o with
  | ONew c n r => do_new s c n r
  | OClone h =>
    match get_h s h with
    | Some x =>
      match clone_impl (hk x) with
      | Some (f, k') => run_lib s (f (hl x)) (fun l s' => (push_h s' (mkH k' l MOwned), S_OK, [N.of_nat l]))
      | None => (s, skip_obs)
      end
    | None => (s, skip_obs)
    end
  | ODrop h =>
    match get_h s h with
    | Some x =>
      match drop_impl (hk x), can_consume (hm x) with
      | Some f, true => run_lib (set_h s h None) (f (hl x)) (fun _ s' => (s', S_OK, []))
      | _, _ => (s, skip_obs)
      end
    | None => (s, skip_obs)
    end
  | OForget h =>
    match get_h s h with
    | Some x =>
      if can_consume (hm x) && negb (is_raw_kind (hk x)) && negb (hkind_eqb (hk x) KForgotten)
      then (set_h s h (Some (mkH KForgotten (hl x) MOwned)), obs_of S_OK [] (ms s) (ms s))
      else (s, skip_obs)
    | None => (s, skip_obs)
    end
  | OConv c h =>
    match get_h s h with
    | Some x =>
      if negb (can_consume (hm x)) then (s, skip_obs) else
      if c =? 16 then
        match assume_target (hk x) with
        | Some k' =>
          run_lib s (get_blk (hl x))
            (fun b s' => if all_init (b_cells b) then (set_h s' h (Some (mkH k' (hl x) MOwned)), S_OK, [])
                         else (s', S_SKIP, []))
        | None => (s, skip_obs)
        end
      else
      match conv_target c (hk x) with
      | Some k' =>
        if c =? 7 then
          (* into_thin consumes the Arc; on a length mismatch it is dropped by the unwinding *)
          match Arc_into_thin (hl x) (ms s) with
          | (Ret l, m1) => (set_h (with_ms s m1) h (Some (mkH k' l MOwned)), obs_of S_OK [] (ms s) m1)
          | (Panicked, m1) => (set_h (with_ms s m1) h None, obs_of S_PANIC [] (ms s) m1)
          | (Aborted, m1) => (mkSt m1 (tbl s) (frames s) (skip s) true, obs_of S_ABORT [] (ms s) m1)
          end
        else (set_h s h (Some (mkH k' (hl x) MOwned)), obs_of S_OK [] (ms s) (ms s))
      | None => (s, skip_obs)
      end
    | None => (s, skip_obs)
    end
  | OCloneArc h =>
    match get_h s h with
    | Some x =>
      match hk x with
      | KArc => run_lib s (ArcBorrow_clone_arc (hl x)) (fun l s' => (push_h s' (mkH KArc l MOwned), S_OK, [N.of_nat l]))
      | KOff => run_lib s (OffsetArc_clone_arc (hl x)) (fun l s' => (push_h s' (mkH KArc l MOwned), S_OK, [N.of_nat l]))
      | KUn1 => run_lib s (ArcBorrow_clone_arc (hl x)) (fun l s' => (push_h s' (mkH KArc l MOwned), S_OK, [N.of_nat l]))
      | KUn2 => run_lib s (ArcBorrow_clone_arc (hl x)) (fun l s' => (push_h s' (mkH KArcB l MOwned), S_OK, [N.of_nat l]))
      | KArcB => run_lib s (ArcBorrow_clone_arc (hl x)) (fun l s' => (push_h s' (mkH KArcB l MOwned), S_OK, [N.of_nat l]))
      | _ => (s, skip_obs)
      end
    | None => (s, skip_obs)
    end
  | OCount acc h =>
    match get_h s h with
    | Some x =>
      match count_impl acc (hk x) with
      | Some f => run_lib s (f (hl x)) (fun c s' => (s', S_OK, [c; N.of_nat (owners (tbl s') (hl x))]))
      | None => (s, skip_obs)
      end
    | None => (s, skip_obs)
    end
  | OIsUnique h =>
    match get_h s h with
    | Some x =>
      if is_arc_kind (hk x) then run_lib s (Arc_is_unique (hl x)) (fun u s' => (s', S_OK, [if u then 1 else 0]))
      else (s, skip_obs)
    | None => (s, skip_obs)
    end
  | ORead h =>
    match get_h s h with
    | Some x =>
      if is_raw_kind (hk x) || hkind_eqb (hk x) KForgotten then (s, skip_obs)
      else run_lib s (get_blk (hl x)) (fun b s' => (s', S_OK, read_view (hk x) b))
    | None => (s, skip_obs)
    end
  | OPtrOf h =>
    match get_h s h with
    | Some x =>
      match kind_cls (hk x) with
      | Some c =>
        (* as_ptr / into_raw value / Deref address, as (block, offset); ThinArc's raw forms give the block start *)
        let off := match hk x with KThin | KRawThin => 0 | _ => data_off c end in
        (s, obs_of S_OK [N.of_nat (hl x); off] (ms s) (ms s))
      | None => (s, skip_obs)
      end
    | None => (s, skip_obs)
    end
  | OGetMut h =>
    match get_h s h with
    | Some x =>
      if is_arc_kind (hk x) && can_mut (hm x) && negb (uninit_view (hk x)) then
        run_lib s (Arc_is_unique (hl x))
          (fun u s' => if u then
                         (match (if hkind_eqb (hk x) KDyn then (Ret false, ms s') else write_through (hl x) 0 true (ms s')) with
                          | (_, m2) => (with_ms s' m2, S_OK, [])
                          end)
                       else declined s')
      else (s, skip_obs)
    | None => (s, skip_obs)
    end
  | OGetUnique h =>
    match get_h s h with
    | Some x =>
      match hk x, can_mut (hm x) with
      | KArc, true =>
        (* get_unique = try_as_unique(this).ok(): is_unique, then from_arc_ref *)
        run_lib s (Arc_try_unique d (hl x))
          (fun u s' => if u then (match write_through (hl x) 0 true (ms s') with (_, m2) => (with_ms s' m2, S_OK, []) end)
                       else declined s')
      | _, _ => (s, skip_obs)
      end
    | None => (s, skip_obs)
    end
  | OTryUnique h | OTryFrom h =>
    match get_h s h with
    | Some x =>
      match hk x, can_consume (hm x) with
      | KArc, true =>
        run_lib s (Arc_try_unique d (hl x))
          (fun u s' => if u then (set_h s' h (Some (mkH KUniq (hl x) MOwned)), S_OK, []) else declined s')
      | _, _ => (s, skip_obs)
      end
    | None => (s, skip_obs)
    end
  | OTryUnwrap h =>
    match get_h s h with
    | Some x =>
      match hk x, can_consume (hm x) with
      | KArc, true =>
        run_lib s (r <- Arc_try_unwrap d (hl x) ;;
                   match r with
                   | Some v => drop_cells true v ;;; ret (Some v)     (* the harness drops the value it received *)
                   | None => ret None
                   end)
          (fun r s' => match r with
                       | Some v => (set_h s' h None, S_OK, map fst v)
                       | None => declined s'
                       end)
      | _, _ => (s, skip_obs)
      end
    | None => (s, skip_obs)
    end
  | OMakeMut h pf =>
    match get_h s h with
    | Some x =>
      match hk x, can_mut (hm x) with
      | KArc, true =>
        (* this = &mut table[h]; on a panic in Clone the binding is untouched *)
        run_lib s (l' <- Arc_make_mut (hl x) pf ;; write_through l' 0 true ;;; ret l')
          (fun l' s' => (set_h s' h (Some (mkH KArc l' (hm x))), S_OK, [N.of_nat l']))
      | KOff, true =>
        (* OffsetArc::make_mut: ptr::read(self) -> ManuallyDrop<Arc> -> Arc::make_mut -> ptr::write(self, ..) *)
        run_lib s (l' <- Arc_make_mut (hl x) pf ;; write_through l' 0 true ;;; ret l')
          (fun l' s' => (set_h s' h (Some (mkH KOff l' (hm x))), S_OK, [N.of_nat l']))
      | _, _ => (s, skip_obs)
      end
    | None => (s, skip_obs)
    end
  | OMakeUnique h pf =>
    match get_h s h with
    | Some x =>
      match hk x, can_mut (hm x) with
      | KArc, true =>
        (* make_unique: same replacement, then UniqueArc::from_arc_ref(this) *)
        run_lib s (l' <- Arc_make_mut (hl x) pf ;; dbg_unique_assert d l' ;;; write_through l' 0 true ;;; ret l')
          (fun l' s' => (set_h s' h (Some (mkH KArc l' (hm x))), S_OK, [N.of_nat l']))
      | _, _ => (s, skip_obs)
      end
    | None => (s, skip_obs)
    end
  | OUnwrapOrClone h pf =>
    match get_h s h with
    | Some x =>
      match hk x, can_consume (hm x) with
      | KArc, true =>
        match (t <- Arc_unwrap_or_clone d (hl x) pf ;; emit (EDtor t) ;;; ret t) (ms s) with
        | (Ret t, m1) => (set_h (with_ms s m1) h None, obs_of S_OK [t] (ms s) m1)
        | (Panicked, m1) => (set_h (with_ms s m1) h None, obs_of S_PANIC [] (ms s) m1)
        | (Aborted, m1) => (mkSt m1 (tbl s) (frames s) (skip s) true, obs_of S_ABORT [] (ms s) m1)
        end
      | _, _ => (s, skip_obs)
      end
    | None => (s, skip_obs)
    end
  | OIntoInner h =>
    match get_h s h with
    | Some x =>
      match hk x, can_consume (hm x) with
      | KUniq, true =>
        run_lib (set_h s h None) (v <- UniqueArc_into_inner d (hl x) ;; drop_cells true v ;;; ret v)
          (fun v s' => (s', S_OK, map fst v))
      | _, _ => (s, skip_obs)
      end
    | None => (s, skip_obs)
    end
  | ODeprecatedWrite h i =>
    (* Arc<MaybeUninit<T>>::write / Arc<[MaybeUninit<T>]>::as_mut_slice: must_be_unique panics when shared *)
    match get_h s h with
    | Some x =>
      match hk x, can_mut (hm x) with
      | KMA, true =>
        (* a.write(Tok::new()): the argument is built first; when shared, must_be_unique panics (its message
           reads the count again) and the argument is dropped by the unwinding *)
        run_lib s (t <- fresh ;; u <- Arc_try_unique d (hl x) ;;
                   if u then write_tok (hl x) 0 t false
                   else (Arc_count (hl x) ;;; emit (EDtor t) ;;; panic))
          (fun _ s' => (s', S_OK, []))
      | KMAS, true =>
        (* if let Some(e) = a.as_mut_slice().get_mut(i) { e.write(Tok::new()); } *)
        run_lib s (u <- Arc_try_unique d (hl x) ;;
                   if u then (write_through (hl x) i false ;;; ret tt)
                   else (Arc_count (hl x) ;;; panic))
          (fun _ s' => (s', S_OK, []))
      | _, _ => (s, skip_obs)
      end
    | None => (s, skip_obs)
    end
  | OWriteSlot h i =>
    match get_h s h with
    | Some x =>
      match hk x, can_mut (hm x) with
      | KMU, true =>
        run_lib s (write_through (hl x) 0 false) (fun _ s' => (s', S_OK, []))
      | KMUS, true | KMUH, true =>
        run_lib s (write_through (hl x) i false) (fun _ s' => (s', S_OK, []))
      | _, _ => (s, skip_obs)
      end
    | None => (s, skip_obs)
    end
  | OUniqMut h i =>
    match get_h s h with
    | Some x =>
      match hk x, can_mut (hm x) with
      | KUniq, true =>
        run_lib s (write_through (hl x) 0 true) (fun _ s' => (s', S_OK, []))
      | KUS, true | KUH, true =>
        run_lib s (write_through (hl x) i true) (fun _ s' => (s', S_OK, []))
      | _, _ => (s, skip_obs)
      end
    | None => (s, skip_obs)
    end
  | OBegin w h =>
    match get_h s h with
    | Some x =>
      match begin_info w (hk x) with
      | Some (needmut, vk, vm) =>
        if needmut && negb (can_consume (hm x)) then (mkSt (ms s) (tbl s) (frames s) 1 (dead s), skip_obs) else
        (mkSt (ms s) (upd (tbl s) h (Some (mkH vk (hl x) vm))) (mkF h (hk x) (hm x) w :: frames s) 0 (dead s),
         obs_of S_OK [] (ms s) (ms s))
      | None => (mkSt (ms s) (tbl s) (frames s) 1 (dead s), skip_obs)   (* body of an inapplicable callback is skipped *)
      end
    | None => (mkSt (ms s) (tbl s) (frames s) 1 (dead s), skip_obs)
    end
  | OEnd =>
    match frames s with
    | f :: r =>
      let s1 := exit_frame s f in
      (mkSt (ms s1) (tbl s1) r 0 (dead s1), obs_of S_OK [] (ms s) (ms s))
    | [] => (s, skip_obs)
    end
  | OPanic =>
    match frames s with
    | [] => (s, skip_obs)       (* a top-level panic is just caught: nothing to unwind *)
    | fs =>
      let s1 := exit_all s fs in
      (mkSt (ms s1) (tbl s1) [] (length fs) (dead s1), obs_of S_PANIC [] (ms s) (ms s))
    end
  | OReplace h h' =>
    (* inside with_arc_mut: old = mem::replace(a, protected_from_thin(h')); h' := protected_into_thin(old) *)
    match get_h s h, get_h s h' with
    | Some x, Some y =>
      match hk x, hm x, hk y, can_consume (hm y) with
      | KProt, MMut, KThin, true =>
        (set_h (set_h s h (Some (mkH KProt (hl y) MMut))) h' (Some (mkH KThin (hl x) MOwned)),
         obs_of S_OK [] (ms s) (ms s))
      | _, _, _, _ => (s, skip_obs)
      end
    | _, _ => (s, skip_obs)
    end
  | OAssign h h' =>
    (* inside with_arc_mut: *a = protected_from_thin(h') — the old Arc is dropped by the assignment *)
    match get_h s h, get_h s h' with
    | Some x, Some y =>
      match hk x, hm x, hk y, can_consume (hm y) with
      | KProt, MMut, KThin, true =>
        run_lib (set_h (set_h s h (Some (mkH KProt (hl y) MMut))) h' None) (Arc_drop (hl x) true)
          (fun _ s' => (s', S_OK, []))
      | _, _, _, _ => (s, skip_obs)
      end
    | _, _ => (s, skip_obs)
    end
  | OUnionAcc h =>
    match get_h s h with
    | Some x =>
      match hk x with
      | KUn1 => (s, obs_of S_OK [1; 0; 1; 0] (ms s) (ms s))     (* is_first, is_second, as_first.is_some, as_second.is_some *)
      | KUn2 => (s, obs_of S_OK [0; 1; 0; 1] (ms s) (ms s))
      | _ => (s, skip_obs)
      end
    | None => (s, skip_obs)
    end
  | OBad => (s, skip_obs)
  end
  end.

Fixpoint run (d : bool) (s : st) (ops : list op) : st * list (list N) :=
  match ops with
  | [] => (s, [])
  | o :: r => let '(s1, ob) := step d s o in let '(s2, obs) := run d s1 r in (s2, ob :: obs)
  end.

(** ** Decoding case files *)
Definition nb (x : N) : bool := negb (x =? 0).
Definition decode (l : list N) : op :=
  match l with
  | [0; c; n; r] => ONew c n r
  | [20; h] => OClone (N.to_nat h)
  | [21; h] => ODrop (N.to_nat h)
  | [22; h] => OForget (N.to_nat h)
  | [23; c; h] => OConv c (N.to_nat h)
  | [24; h] => OCloneArc (N.to_nat h)
  | [25; a; h] => OCount a (N.to_nat h)
  | [26; h] => OIsUnique (N.to_nat h)
  | [27; h] => ORead (N.to_nat h)
  | [28; h] => OPtrOf (N.to_nat h)
  | [29; h] => OGetMut (N.to_nat h)
  | [30; h] => OGetUnique (N.to_nat h)
  | [31; h] => OTryUnique (N.to_nat h)
  | [32; h] => OTryUnwrap (N.to_nat h)
  | [33; h] => OTryFrom (N.to_nat h)
  | [34; h; pf] => OMakeMut (N.to_nat h) (nb pf)
  | [35; h; pf] => OMakeUnique (N.to_nat h) (nb pf)
  | [36; h; pf] => OUnwrapOrClone (N.to_nat h) (nb pf)
  | [37; h] => OIntoInner (N.to_nat h)
  | [38; h; i] => ODeprecatedWrite (N.to_nat h) (N.to_nat i)
  | [40; h; i] => OWriteSlot (N.to_nat h) (N.to_nat i)
  | [47; h; i] => OUniqMut (N.to_nat h) (N.to_nat i)
  | [41; w; h] => OBegin w (N.to_nat h)
  | [42] => OEnd
  | [43] => OPanic
  | [44; h; h'] => OReplace (N.to_nat h) (N.to_nat h')
  | [45; h; h'] => OAssign (N.to_nat h) (N.to_nat h')
  | [46; h] => OUnionAcc (N.to_nat h)
  | _ => OBad
  end.

(** final line: for every block, [alive; count; number of owning table entries] — lets the harness's own
    bookkeeping be compared at the end of the history *)

Definition final_obs (s : st) : list N :=
  flat_map (fun '(l, b) => [if b_alive b then 1 else 0; N.of_nat (owners (tbl s) l)])
           (combine (seq 0 (length (heap (ms s)))) (heap (ms s))).

(** a case may start with [[100; d]]: [d <> 0] = the implementation was built with debug assertions *)
Definition run_mech (case : list (list N)) : list (list N) :=
  match case with
  | [100; d] :: rest => let '(s, obs) := run (nb d) init_st (map decode rest) in obs ++ [final_obs s]
  | _ => let '(s, obs) := run false init_st (map decode case) in obs ++ [final_obs s]
  end.
