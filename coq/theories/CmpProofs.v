(** * CmpProofs.v — delegation, header-then-slice ordering and mutual consistency of the handle
    comparison impls, for all values of all payload types. *)
From Coq Require Import NArith List Bool String Lia.
From TV Require Import Cmp.
Import ListNotations.
Open Scope N_scope.

(** ** lawful payloads (only needed for the consistency theorems; delegation needs no law) *)
Record lawful {V} (S : psig V) : Prop := mkLawful {
  l_ne : forall a b, p_ne S a b = negb (p_eq S a b);
  l_eq_pcmp : forall a b, p_eq S a b = true <-> p_pcmp S a b = Some Eq;
  l_lt : forall a b, p_lt S a b = of_pcmp (p_pcmp S a b) OLt;
  l_le : forall a b, p_le S a b = of_pcmp (p_pcmp S a b) OLe;
  l_gt : forall a b, p_gt S a b = of_pcmp (p_pcmp S a b) OGt;
  l_ge : forall a b, p_ge S a b = of_pcmp (p_pcmp S a b) OGe;
  l_hash : forall a b, p_eq S a b = true -> p_hash S a = p_hash S b }.
Definition lawful_ord {V} (S : psig V) : Prop := lawful S /\ forall a b, p_pcmp S a b = Some (p_cmp S a b).

Definition coherent {V} (S : psig V) : Prop :=
  (forall a b, p_ne S a b = negb (p_eq S a b)) /\
  (forall a b, p_eq S a b = true <-> p_pcmp S a b = Some Eq) /\
  (forall a b, p_lt S a b = of_pcmp (p_pcmp S a b) OLt) /\ (forall a b, p_le S a b = of_pcmp (p_pcmp S a b) OLe) /\
  (forall a b, p_gt S a b = of_pcmp (p_pcmp S a b) OGt) /\ (forall a b, p_ge S a b = of_pcmp (p_pcmp S a b) OGe) /\
  (forall a b, p_eq S a b = true -> p_hash S a = p_hash S b).

(** ** Arc-like handles delegate (no law assumed about the payload) *)
Section Deleg.
Context {V : Type} (S : psig V).

Theorem arc_delegates (a b : hv V) :
  arc_bool expected_impls "Arc" S OEq a b = Some (same a b || p_eq S (h_val a) (h_val b)) /\
  arc_bool expected_impls "Arc" S ONe a b = Some (negb (same a b) && p_ne S (h_val a) (h_val b)) /\
  arc_bool expected_impls "Arc" S OLt a b = Some (p_lt S (h_val a) (h_val b)) /\
  arc_bool expected_impls "Arc" S OLe a b = Some (p_le S (h_val a) (h_val b)) /\
  arc_bool expected_impls "Arc" S OGt a b = Some (p_gt S (h_val a) (h_val b)) /\
  arc_bool expected_impls "Arc" S OGe a b = Some (p_ge S (h_val a) (h_val b)) /\
  arc_pcmp expected_impls "Arc" S a b = Some (p_pcmp S (h_val a) (h_val b)) /\
  arc_cmp expected_impls "Arc" S a b = Some (p_cmp S (h_val a) (h_val b)) /\
  arc_hash expected_impls "Arc" S a = Some (p_hash S (h_val a)) /\
  arc_dbg expected_impls "Arc" S a = Some (p_dbg S (h_val a)) /\
  arc_disp expected_impls "Arc" S a = Some (p_disp S (h_val a)).
Proof. repeat split; reflexivity. Qed.

(** the one licence: [==]/[!=] differ from the payload's only for two handles to the same allocation whose value
    is not equal to itself *)
Theorem arc_eq_licence (a b : hv V) :
  arc_bool expected_impls "Arc" S OEq a b <> Some (p_eq S (h_val a) (h_val b)) ->
  same a b = true /\ p_eq S (h_val a) (h_val b) = false.
Proof.
  destruct (arc_delegates a b) as (E & _). rewrite E. intros H.
  destruct (same a b), (p_eq S (h_val a) (h_val b)); simpl in *; try congruence; auto.
Qed.

Theorem offset_and_borrow_delegate (a b : hv V) :
  arc_bool expected_impls "OffsetArc" S OEq a b = Some (p_eq S (h_val a) (h_val b)) /\
  arc_bool expected_impls "OffsetArc" S ONe a b = Some (p_ne S (h_val a) (h_val b)) /\
  arc_dbg expected_impls "OffsetArc" S a = Some (p_dbg S (h_val a)) /\
  arc_bool expected_impls "ArcBorrow" S OEq a b = Some (same a b || p_eq S (h_val a) (h_val b)) /\
  arc_bool expected_impls "ArcBorrow" S ONe a b = Some (negb (same a b) && p_ne S (h_val a) (h_val b)) /\
  arc_dbg expected_impls "ArcBorrow" S a = Some (p_dbg S (h_val a)).
Proof. repeat split; reflexivity. Qed.
End Deleg.

(** ** slices *)
Lemma slice_pcmp_eq_length {V} (S : psig V) : forall a b, slice_pcmp S a b = Some Eq -> List.length a = List.length b.
Proof.
  induction a as [|x a IH]; intros [|y b] H; simpl in *; try discriminate; auto.
  destruct (p_pcmp S x y) as [[| |]|]; try discriminate. f_equal. apply IH; auto.
Qed.

Lemma slice_eq_pcmp {V} (S : psig V) : lawful S -> forall a b, slice_eq S a b = true <-> slice_pcmp S a b = Some Eq.
Proof.
  intros L. induction a as [|x a IH]; intros [|y b]; simpl; split; intros H; try discriminate; auto.
  - apply andb_true_iff in H. destruct H as [H1 H2]. rewrite (l_ne S L), negb_involutive in H1. apply (l_eq_pcmp S L) in H1. rewrite H1. apply IH; auto.
  - destruct (p_pcmp S x y) as [[| |]|] eqn:E; try discriminate.
    apply andb_true_iff. split; [rewrite (l_ne S L), negb_involutive; apply (l_eq_pcmp S L); auto|apply IH; auto].
Qed.

Lemma slice_hash_eq {V} (S : psig V) : lawful S -> forall a b, slice_eq S a b = true -> slice_hash S a = slice_hash S b.
Proof.
  intros L. unfold slice_hash.
  assert (H : forall a b, slice_eq S a b = true -> List.length a = List.length b /\ flat_map (p_hash S) a = flat_map (p_hash S) b).
  { induction a as [|x a IH]; intros [|y b] H; simpl in *; try discriminate; auto.
    apply andb_true_iff in H. destruct H as [H1 H2]. rewrite (l_ne S L), negb_involutive in H1. destruct (IH b H2) as [A B]. split; [congruence|].
    rewrite (l_hash S L x y H1), B. reflexivity. }
  intros a b E. destruct (H a b E) as [A B]. rewrite A, B. reflexivity.
Qed.

Lemma slice_pcmp_cmp {V} (S : psig V) : lawful_ord S -> forall a b, slice_pcmp S a b = Some (slice_cmp S a b).
Proof.
  intros [L O]. induction a as [|x a IH]; intros [|y b]; simpl; auto.
  rewrite O. destruct (p_cmp S x y); auto.
Qed.

(** ** the header-slice payload with a recorded length *)
Section HS.
Context {VH VT : Type} (SH : psig VH) (ST : psig VT).

Definition hslu : psig (hs VH VT) :=
  match hslu_sig expected_impls SH ST with Some Sg => Sg | None => mkP (fun _ _ => false) (fun _ _ => false) (fun _ _ => false) (fun _ _ => false) (fun _ _ => false) (fun _ _ => false) (fun _ _ => None) (fun _ _ => Eq) (fun _ => []) (fun _ => []) (fun _ => []) end.

Lemma hslu_is : hslu_sig expected_impls SH ST = Some hslu.
Proof. reflexivity. Qed.

(** ordering: the header first, then the slice (lexicographic, shorter prefix first), the recorded length only as
    the last tie-breaker *)
Theorem hslu_orders_header_then_slice (a b : hs VH VT) :
  p_pcmp hslu a b =
    lex (p_pcmp SH (s_hdr a) (s_hdr b)) (fun _ =>
    lex (slice_pcmp ST (s_slice a) (s_slice b)) (fun _ => Some (N.compare (s_len a) (s_len b)))) /\
  p_cmp hslu a b =
    lexc (p_cmp SH (s_hdr a) (s_hdr b)) (fun _ =>
    lexc (slice_cmp ST (s_slice a) (s_slice b)) (fun _ => N.compare (s_len a) (s_len b))).
Proof.
  split; simpl.
  - destruct (p_pcmp SH (s_hdr a) (s_hdr b)) as [[| |]|]; simpl; auto.
    destruct (slice_pcmp ST (s_slice a) (s_slice b)) as [[| |]|]; simpl; auto.
    destruct (s_len a ?= s_len b); reflexivity.
  - destruct (p_cmp SH (s_hdr a) (s_hdr b)); simpl; auto.
    destruct (slice_cmp ST (s_slice a) (s_slice b)); simpl; auto.
    destruct (s_len a ?= s_len b); reflexivity.
Qed.

(** for values whose recorded length is the slice length (every ThinArc: C10) the length never decides *)
Theorem thin_orders_header_then_slice (a b : hs VH VT) :
  s_len a = N.of_nat (List.length (s_slice a)) -> s_len b = N.of_nat (List.length (s_slice b)) ->
  p_pcmp hslu a b = lex (p_pcmp SH (s_hdr a) (s_hdr b)) (fun _ => slice_pcmp ST (s_slice a) (s_slice b)).
Proof.
  intros Ha Hb. destruct (hslu_orders_header_then_slice a b) as [E _]. rewrite E.
  destruct (p_pcmp SH (s_hdr a) (s_hdr b)) as [[| |]|]; simpl; auto.
  destruct (slice_pcmp ST (s_slice a) (s_slice b)) as [[| |]|] eqn:Es; simpl; auto.
  apply slice_pcmp_eq_length in Es. rewrite Ha, Hb, Es. rewrite N.compare_refl. reflexivity.
Qed.

(** equality, inequality, the relational operators, partial_cmp (and cmp) are mutually consistent, and equal
    values hash equally -- for EVERY value, also when the recorded length is not the slice length *)
Theorem hslu_coherent : lawful SH -> lawful ST -> coherent hslu.
Proof.
  intros LH LT. unfold coherent. split; [reflexivity|]. split; [|split; [reflexivity|split; [reflexivity|split; [reflexivity|split; [reflexivity|]]]]].
  - intros a b. destruct (hslu_orders_header_then_slice a b) as [E _]. rewrite E. simpl. unfold hslu_eq. split.
    + intros H. apply andb_true_iff in H. destruct H as [H H3]. apply andb_true_iff in H. destruct H as [H1 H2].
      apply (l_eq_pcmp SH LH) in H1. rewrite H1. simpl.
      apply (slice_eq_pcmp ST LT) in H3. rewrite H3. simpl. apply N.eqb_eq in H2. rewrite H2, N.compare_refl. reflexivity.
    + intros H. destruct (p_pcmp SH (s_hdr a) (s_hdr b)) as [[| |]|] eqn:E1; simpl in H; try discriminate.
      destruct (slice_pcmp ST (s_slice a) (s_slice b)) as [[| |]|] eqn:E2; simpl in H; try discriminate.
      destruct (s_len a ?= s_len b) eqn:E3; try discriminate.
      apply andb_true_iff. split; [apply andb_true_iff; split|].
      * apply (l_eq_pcmp SH LH); auto.
      * apply N.eqb_eq. apply N.compare_eq; auto.
      * apply (slice_eq_pcmp ST LT); auto.
  - intros a b H. simpl in *. unfold hslu_eq in H. apply andb_true_iff in H. destruct H as [H H3]. apply andb_true_iff in H. destruct H as [H1 H2].
    apply N.eqb_eq in H2. rewrite (l_hash SH LH _ _ H1), H2, (slice_hash_eq ST LT _ _ H3). reflexivity.
Qed.

Theorem hslu_cmp_agrees_with_partial_cmp : lawful_ord SH -> lawful_ord ST -> forall a b, p_pcmp hslu a b = Some (p_cmp hslu a b).
Proof.
  intros [LH OH] LT a b. destruct (hslu_orders_header_then_slice a b) as [E1 E2]. rewrite E1, E2.
  rewrite OH. destruct (p_cmp SH (s_hdr a) (s_hdr b)); simpl; auto.
  rewrite (slice_pcmp_cmp ST LT). destruct (slice_cmp ST (s_slice a) (s_slice b)); simpl; auto.
Qed.

(** ThinArc is the fat Arc of the same allocation: every method is the Arc's method on the header-slice payload *)
Theorem thin_is_arc_of_header_slice (a b : hv (hs VH VT)) :
  thin_bool expected_impls SH ST OEq a b = Some (same a b || p_eq hslu (h_val a) (h_val b)) /\
  thin_bool expected_impls SH ST ONe a b = Some (negb (same a b || p_eq hslu (h_val a) (h_val b))) /\
  (forall o, o <> OEq -> o <> ONe -> thin_bool expected_impls SH ST o a b = Some (of_pcmp (p_pcmp hslu (h_val a) (h_val b)) o)) /\
  thin_pcmp expected_impls SH ST a b = Some (p_pcmp hslu (h_val a) (h_val b)) /\
  thin_cmp expected_impls SH ST a b = Some (p_cmp hslu (h_val a) (h_val b)) /\
  thin_hash expected_impls SH ST a = Some (p_hash hslu (h_val a)).
Proof.
  split; [reflexivity|]. split; [reflexivity|]. split; [|repeat split; reflexivity].
  intros o H1 H2. destruct o; try congruence; reflexivity.
Qed.
End HS.

(** without the recorded length as a tie-breaker (the crate before the repair f6d1065) the consistency fails: *)
Definition nat_sig : psig N :=
  mkP N.eqb (fun a b => negb (N.eqb a b)) N.ltb N.leb (fun a b => N.ltb b a) (fun a b => N.leb b a)
      (fun a b => Some (N.compare a b)) N.compare (fun a => [a]) (fun a => [a]) (fun a => [a]).
Theorem coherence_needs_the_length_tiebreak :
  let a := mkHS 1 5 [1; 2] in let b := mkHS 1 2 [1; 2] in
  hslu_eq nat_sig nat_sig a b = false /\ tuple_pcmp nat_sig nat_sig [FldHeader; FldSlice] a b = Some Eq.
Proof. vm_compute. split; reflexivity. Qed.

(** ** ArcUnion *)
Theorem union_eq_spec {VA VB} (SA : psig VA) (SB : psig VB) (x y : uval VA VB) :
  union_eq expected_impls SA SB x y =
  Some (match x, y with
        | UFirst a, UFirst b => same a b || p_eq SA (h_val a) (h_val b)
        | USecond a, USecond b => same a b || p_eq SB (h_val a) (h_val b)
        | _, _ => false
        end).
Proof. destruct x, y; reflexivity. Qed.

Theorem union_dbg_spec {VA VB} (SA : psig VA) (SB : psig VB) (x : uval VA VB) :
  union_dbg expected_impls SA SB x =
  Some (match x with UFirst a => 1 :: p_dbg SA (h_val a) | USecond b => 2 :: p_dbg SB (h_val b) end).
Proof. destruct x; reflexivity. Qed.

(** non-vacuity: the natural numbers are a lawful ordered payload *)
Lemma nat_sig_lawful : lawful_ord nat_sig.
Proof.
  split; [constructor|]; intros a b.
  - reflexivity.
  - simpl. rewrite N.eqb_eq. split; intros H; [subst; rewrite N.compare_refl; reflexivity|]. inversion H as [H']. apply N.compare_eq_iff; auto.
  - simpl. unfold N.ltb. destruct (a ?= b); reflexivity.
  - simpl. unfold N.leb. destruct (a ?= b); reflexivity.
  - simpl. unfold N.ltb. rewrite (N.compare_antisym a b). destruct (a ?= b); reflexivity.
  - simpl. unfold N.leb. rewrite (N.compare_antisym a b). destruct (a ?= b); reflexivity.
  - simpl. intros H. apply N.eqb_eq in H. subst; reflexivity.
  - reflexivity.
Qed.
