(** * LayoutProofs.v — theorems about [Layout.v] (C05, C11 address part, C12 tag-bit parity). *)
From Coq Require Import NArith List Bool Lia ZArith Znumtheory.
From TV Require Import Layout.
Import ListNotations.
Open Scope N_scope.

Ltac Zify.zify_post_hook ::= Z.div_mod_to_equations.

(** ** round_up *)
Lemma round_up_ge x a : 0 < a -> x <= round_up x a.
Proof. unfold round_up; intros; nia. Qed.

Lemma round_up_lt x a : 0 < a -> round_up x a < x + a.
Proof. unfold round_up; intros; nia. Qed.

Lemma round_up_mod x a : 0 < a -> round_up x a mod a = 0.
Proof. unfold round_up; intros. apply N.mod_mul. lia. Qed.

Lemma mod0_mul x a : 0 < a -> x mod a = 0 -> exists q, x = q * a.
Proof. intros Ha H. exists (x / a). pose proof (N.div_mod x a). lia. Qed.

Lemma round_up_id x a : 0 < a -> x mod a = 0 -> round_up x a = x.
Proof.
  intros Ha H. destruct (mod0_mul _ _ Ha H) as [q ->]. unfold round_up.
  rewrite N.add_comm, N.div_add by lia. rewrite N.div_small by lia. lia. Qed.

Lemma round_up_least x y a : 0 < a -> y mod a = 0 -> x <= y -> round_up x a <= y.
Proof.
  intros Ha Hy Hxy. destruct (mod0_mul _ _ Ha Hy) as [q ->].
  unfold round_up.
  assert ((x + (a - 1)) / a < q + 1) as Hlt.
  { apply N.div_lt_upper_bound; [lia|]. nia. }
  assert ((x + (a - 1)) / a <= q) as Hle by lia.
  apply N.mul_le_mono_r; exact Hle. Qed.

Lemma round_up_mono x y a : 0 < a -> x <= y -> round_up x a <= round_up y a.
Proof.
  intros Ha Hxy. apply round_up_least; [exact Ha|apply round_up_mod; exact Ha|].
  pose proof (round_up_ge y a Ha); lia. Qed.

Lemma round_up_0 a : 0 < a -> round_up 0 a = 0.
Proof. intros Ha. apply round_up_id; [exact Ha|]. apply N.mod_0_l; lia. Qed.

Lemma round_up_add_mult x y a : 0 < a -> y mod a = 0 -> round_up (y + x) a = y + round_up x a.
Proof.
  intros Ha Hy. destruct (mod0_mul _ _ Ha Hy) as [q ->].
  unfold round_up.
  replace (q * a + x + (a - 1)) with ((x + (a - 1)) + q * a) by lia.
  rewrite N.div_add by lia. lia. Qed.

Lemma mod_mod_divide x a b : 0 < a -> 0 < b -> b mod a = 0 -> x mod b = 0 -> x mod a = 0.
Proof.
  intros Ha Hb Hba Hx.
  destruct (mod0_mul _ _ Ha Hba) as [q ->].
  destruct (mod0_mul _ _ Hb Hx) as [r ->].
  replace (r * (q * a)) with ((r * q) * a) by lia. apply N.mod_mul; lia. Qed.

Lemma round_up_round_up x a b : 0 < a -> 0 < b -> b mod a = 0 ->
  round_up (round_up x a) b = round_up x b.
Proof.
  intros Ha Hb Hba. apply N.le_antisymm.
  - apply round_up_least; [exact Hb|apply round_up_mod; exact Hb|].
    apply round_up_least; [exact Ha| |apply round_up_ge; exact Hb].
    apply (mod_mod_divide _ a b); auto using round_up_mod.
  - apply round_up_mono; [exact Hb|apply round_up_ge; exact Ha]. Qed.

(** ** powers of two *)
Lemma pow2_pos k : 0 < 2 ^ k.
Proof. apply N.neq_0_lt_0. apply N.pow_nonzero. lia. Qed.

Lemma pow2_mod j k : j <= k -> 2 ^ k mod 2 ^ j = 0.
Proof.
  intros. replace k with ((k - j) + j) by lia. rewrite N.pow_add_r.
  apply N.mod_mul. apply N.pow_nonzero; lia. Qed.

Lemma pow2_le j k : j <= k -> 2 ^ j <= 2 ^ k.
Proof. intros. apply N.pow_le_mono_r; lia. Qed.

Lemma pow2_max_l j k : 2 ^ N.max j k mod 2 ^ j = 0.
Proof. apply pow2_mod; lia. Qed.
Lemma pow2_max_r j k : 2 ^ N.max j k mod 2 ^ k = 0.
Proof. apply pow2_mod; lia. Qed.

Lemma lim_mod k : k <= 63 -> isize_lim mod 2 ^ k = 0.
Proof. intros. unfold isize_lim. apply pow2_mod; auto. Qed.

(** ** valid layouts *)
Definition valid (l : layout) : Prop := lsize l + lalign l <= isize_lim.
Definition tvalid (l : layout) : Prop := valid l /\ lsize l mod lalign l = 0 /\ lalog l <= 29.

Lemma from_size_align_some s k l : from_size_align s k = Some l -> l = mkL s k /\ s + 2 ^ k <= isize_lim.
Proof. unfold from_size_align. destruct (N.leb_spec (s + 2 ^ k) isize_lim); intros E; inversion E; auto. Qed.

Lemma from_size_align_ok s k : s + 2 ^ k <= isize_lim -> from_size_align s k = Some (mkL s k).
Proof. unfold from_size_align. intros. destruct (N.leb_spec (s + 2 ^ k) isize_lim); auto; lia. Qed.

Lemma from_size_align_none s k : from_size_align s k = None -> isize_lim < s + 2 ^ k.
Proof. unfold from_size_align. destruct (N.leb_spec (s + 2 ^ k) isize_lim); intros E; inversion E; auto. Qed.

Lemma valid_alog l : valid l -> lalog l <= 63.
Proof.
  unfold valid, lalign, isize_lim. intros H.
  destruct (N.le_gt_cases (lalog l) 63) as [|G]; auto.
  assert (2 ^ 64 <= 2 ^ lalog l) by (apply pow2_le; lia).
  assert (2 ^ 63 < 2 ^ 64) by (apply N.pow_lt_mono_r; lia). lia. Qed.

Lemma extend_some a b l off :
  extend a b = Some (l, off) ->
  off = round_up (lsize a) (lalign b) /\
  l = mkL (off + lsize b) (N.max (lalog a) (lalog b)) /\ valid l.
Proof.
  unfold extend. destruct (from_size_align _ _) eqn:E; intros H; inversion H; subst.
  apply from_size_align_some in E. destruct E as [-> E]. unfold valid, lalign; simpl. auto. Qed.

Lemma extend_zero l : valid l -> extend (mkL 0 0) l = Some (l, 0).
Proof.
  unfold extend, valid. intros H. cbn [lsize lalog].
  rewrite round_up_0 by apply pow2_pos. rewrite N.add_0_l, N.max_0_l.
  rewrite from_size_align_ok; auto. destruct l; auto. Qed.

Lemma pad_to_align_valid l : valid l -> valid (pad_to_align l).
Proof.
  unfold valid, pad_to_align, lalign; cbn [lsize lalog]. intros H.
  pose proof (valid_alog l H) as Hk.
  pose proof (pow2_pos (lalog l)) as Hp.
  assert (round_up (lsize l) (2 ^ lalog l) <= isize_lim - 2 ^ lalog l); [|lia].
  apply round_up_least; auto; [|unfold lalign in H; lia].
  pose proof (lim_mod _ Hk) as Hm.
  destruct (mod0_mul _ _ Hp Hm) as [q Hq]. rewrite Hq.
  assert (1 <= q) by (unfold lalign in H; nia).
  replace (q * 2 ^ lalog l - 2 ^ lalog l) with ((q - 1) * 2 ^ lalog l) by nia.
  apply N.mod_mul; lia. Qed.

Lemma pad_to_align_mod l : lsize (pad_to_align l) mod lalign (pad_to_align l) = 0.
Proof. unfold pad_to_align, lalign; cbn [lsize lalog]. apply round_up_mod, pow2_pos. Qed.

Lemma pad_to_align_idem l : pad_to_align (pad_to_align l) = pad_to_align l.
Proof.
  unfold pad_to_align at 1.
  rewrite round_up_id; [destruct l; reflexivity|apply pow2_pos|apply pad_to_align_mod]. Qed.

Lemma pad_tvalid_id l : lsize l mod lalign l = 0 -> pad_to_align l = l.
Proof. intros H. unfold pad_to_align. rewrite round_up_id; [destruct l; reflexivity|apply pow2_pos|exact H]. Qed.

(** ** Type layouts are valid, a multiple of their alignment, and at most 2^29-aligned *)
Section shape_induction.
  Variable P : shape -> Prop.
  Hypothesis HPrim : forall s k, P (Prim s k).
  Hypothesis HArr : forall e n, P e -> P (Arr e n).
  Hypothesis HStruct : forall fs, Forall P fs -> P (StructC fs).
  Hypothesis HTransp : forall f, P f -> P (Transp f).
  Fixpoint shape_ind' (t : shape) : P t :=
    match t with
    | Prim s k => HPrim s k
    | Arr e n => HArr e n (shape_ind' e)
    | StructC fs => HStruct fs ((fix go (l : list shape) : Forall P l :=
                        match l with [] => Forall_nil _ | x :: r => Forall_cons _ (shape_ind' x) (go r) end) fs)
    | Transp f => HTransp f (shape_ind' f)
    end.
End shape_induction.

Lemma wf_struct_Forall fs : wf_shape (StructC fs) <-> Forall wf_shape fs.
Proof.
  induction fs as [|x r IH]; cbn.
  - split; auto.
  - split; intros H.
    + destruct H as [Hx Hr]. constructor; auto. apply IH. exact Hr.
    + inversion H; subst. split; auto. apply IH. assumption. Qed.

Lemma all_some_Forall2 {A B} (f : A -> option B) (l : list A) (r : list B) :
  all_some (map f l) = Some r -> Forall2 (fun a b => f a = Some b) l r.
Proof.
  revert r; induction l as [|a l IH]; cbn; intros r H.
  - inversion H; constructor.
  - destruct (f a) eqn:E; [|discriminate].
    destruct (all_some (map f l)) eqn:E2; [|discriminate].
    inversion H; subst. constructor; auto. Qed.

Lemma struct_fold_inv acc ls l :
  valid acc -> lalog acc <= 29 -> Forall (fun x => lalog x <= 29) ls ->
  struct_fold acc ls = Some l -> valid l /\ lalog l <= 29 /\ lalog acc <= lalog l /\ lsize acc <= lsize l.
Proof.
  revert acc; induction ls as [|x ls IH]; cbn; intros acc Hv Hk Hall H.
  - inversion H; subst. repeat split; auto; lia.
  - destruct (extend acc x) as [[acc' off]|] eqn:E; [|discriminate].
    apply extend_some in E. destruct E as (-> & -> & Hv').
    inversion Hall; subst.
    apply IH in H; auto; cbn [lalog lsize] in *; [|lia].
    destruct H as (? & ? & ? & ?). repeat split; auto; try lia.
    pose proof (round_up_ge (lsize acc) (lalign x) (pow2_pos _)). lia. Qed.

Lemma valid_zero : valid (mkL 0 0).
Proof. unfold valid, lalign, isize_lim; cbn. lia. Qed.

Theorem layout_of_tvalid t l : wf_shape t -> layout_of t = Some l -> tvalid l.
Proof.
  revert l; induction t as [s k|e n IH|fs IH|f IH] using shape_ind'; intros l Hwf H.
  - cbn in *. apply from_size_align_some in H. destruct H as [-> H]. destruct Hwf.
    unfold tvalid, valid, lalign; cbn; auto.
  - cbn in *. destruct (layout_of e) as [le|] eqn:E; [|discriminate].
    destruct (IH _ Hwf eq_refl) as (Hv & Hm & Hk).
    unfold array in H. apply from_size_align_some in H. destruct H as [-> H].
    unfold tvalid, valid, lalign in *; cbn [lsize lalog]. repeat split; auto.
    destruct (mod0_mul _ _ (pow2_pos _) Hm) as [q ->].
    replace (q * 2 ^ lalog le * n) with ((q * n) * 2 ^ lalog le) by lia.
    apply N.mod_mul. apply N.pow_nonzero; lia.
  - cbn in H. destruct (all_some (map layout_of fs)) as [ls|] eqn:E; [|discriminate].
    destruct (struct_fold (mkL 0 0) ls) as [l0|] eqn:E2; [|discriminate].
    inversion H; subst; clear H.
    apply all_some_Forall2 in E. apply wf_struct_Forall in Hwf.
    assert (Forall (fun x => lalog x <= 29) ls) as Hks.
    { clear E2. revert IH Hwf. induction E as [|a b l l' Hab _ IH2]; intros IH Hwf; constructor.
      - inversion IH; inversion Hwf; subst. destruct (H1 _ H5 Hab) as (_ & _ & ?). auto.
      - inversion IH; inversion Hwf; subst. apply IH2; auto. }
    apply struct_fold_inv in E2; auto using valid_zero; [|cbn; lia].
    destruct E2 as (Hv & Hk & _ & _).
    unfold tvalid. split; [apply pad_to_align_valid; auto|]. split; [apply pad_to_align_mod|].
    cbn. auto.
  - cbn in *. auto. Qed.

(** ** repr(C) field offsets: aligned, ordered, inside the struct *)
Lemma field_off_spec ls : forall acc l i off,
  struct_fold acc ls = Some l -> field_off acc ls i = Some off ->
  exists li, nth_error ls i = Some li /\ lsize acc <= off /\ off mod lalign li = 0 /\
             off + lsize li <= lsize l /\ lalog li <= lalog l.
Proof.
  induction ls as [|x ls IH]; cbn; intros acc l i off Hf Ho; [discriminate|].
  destruct (extend acc x) as [[acc' o]|] eqn:E; [|discriminate].
  pose proof E as E'. apply extend_some in E'. destruct E' as (-> & -> & Hv').
  assert (forall acc0 l0, struct_fold acc0 ls = Some l0 -> lsize acc0 <= lsize l0 /\ lalog acc0 <= lalog l0) as Hmono.
  { clear. induction ls as [|y ls IH]; cbn; intros acc0 l0 H.
    - inversion H; subst; lia.
    - destruct (extend acc0 y) as [[a' o']|] eqn:E; [|discriminate].
      apply extend_some in E. destruct E as (-> & -> & _). apply IH in H. cbn in H.
      pose proof (round_up_ge (lsize acc0) (lalign y) (pow2_pos _)). lia. }
  destruct i as [|i].
  - inversion Ho; subst. exists x. cbn. split; auto.
    pose proof (round_up_ge (lsize acc) (lalign x) (pow2_pos _)).
    split; auto. split; [apply round_up_mod, pow2_pos|].
    apply Hmono in Hf. cbn in Hf. lia.
  - destruct (IH _ _ _ _ Hf Ho) as (li & Hn & Hle & Hm & Hin & Hk).
    exists li. cbn. repeat split; auto. cbn in Hle.
    pose proof (round_up_ge (lsize acc) (lalign x) (pow2_pos _)). lia. Qed.

Lemma field_off_disjoint ls : forall acc l i j oi oj li,
  struct_fold acc ls = Some l -> (i < j)%nat ->
  field_off acc ls i = Some oi -> field_off acc ls j = Some oj -> nth_error ls i = Some li ->
  oi + lsize li <= oj.
Proof.
  induction ls as [|x ls IH]; cbn; intros acc l i j oi oj li Hf Hij Hi Hj Hn; [discriminate|].
  destruct (extend acc x) as [[acc' o]|] eqn:E; [|discriminate].
  pose proof E as E'. apply extend_some in E'. destruct E' as (-> & -> & Hv').
  destruct j as [|j]; [lia|].
  destruct i as [|i].
  - inversion Hi; subst. cbn in Hn. inversion Hn; subst.
    destruct (field_off_spec _ _ _ _ _ Hf Hj) as (lj & _ & Hle & _). cbn in Hle. exact Hle.
  - cbn in Hn. apply (IH _ _ i j oi oj li Hf); [lia|exact Hi|exact Hj|exact Hn]. Qed.

(** ** Two-field repr(C) structs ([ArcInner], [HeaderSlice], [HeaderWithLength]) *)
Lemma layout_of_struct2 a b la lb :
  layout_of a = Some la -> layout_of b = Some lb -> valid la ->
  layout_of (StructC [a; b]) =
  match extend la lb with Some (l, _) => Some (pad_to_align l) | None => None end.
Proof.
  intros Ha Hb Hv. cbn. rewrite Ha, Hb. cbn. rewrite extend_zero by exact Hv.
  destruct (extend la lb) as [[l o]|]; reflexivity. Qed.

Lemma struct2_field1 a b la lb :
  layout_of a = Some la -> layout_of b = Some lb -> valid la ->
  struct_field_off [a; b] 1 =
  match extend la lb with Some (_, o) => Some o | None => None end.
Proof.
  intros Ha Hb Hv. unfold struct_field_off. cbn. rewrite Ha, Hb. cbn.
  rewrite extend_zero by exact Hv. destruct (extend la lb) as [[l o]|]; reflexivity. Qed.

Lemma struct2_field0 a b la lb :
  layout_of a = Some la -> layout_of b = Some lb -> valid la ->
  struct_field_off [a; b] 0 = Some 0.
Proof.
  intros Ha Hb Hv. unfold struct_field_off. cbn. rewrite Ha, Hb. cbn.
  rewrite extend_zero by exact Hv. reflexivity. Qed.

Lemma layout_usize : layout_of s_usize = Some (mkL 8 3).
Proof. reflexivity. Qed.
Lemma valid_usize : valid (mkL 8 3).
Proof. unfold valid, lalign, isize_lim; cbn; lia. Qed.
Lemma layout_ArcInner_unit : layout_of (s_ArcInner s_unit) = Some (mkL 8 3).
Proof. vm_compute. reflexivity. Qed.

Lemma layout_ArcInner p lp :
  layout_of p = Some lp ->
  layout_of (s_ArcInner p) =
  match extend (mkL 8 3) lp with Some (l, _) => Some (pad_to_align l) | None => None end.
Proof. intros. unfold s_ArcInner. apply layout_of_struct2; auto using layout_usize, valid_usize. Qed.

Lemma data_off_ArcInner p lp :
  layout_of p = Some lp ->
  struct_field_off [s_usize; p] 1 =
  match extend (mkL 8 3) lp with Some (_, o) => Some o | None => None end.
Proof. intros. apply struct2_field1; auto using layout_usize, valid_usize. Qed.

(** ** Padding the right operand of [extend] is redundant under an outer [pad_to_align] *)
Lemma tvalid_valid l : tvalid l -> valid l.
Proof. intros [H _]; exact H. Qed.

Lemma sub_mod_0 L M a : 0 < a -> M <= L -> L mod a = 0 -> M mod a = 0 -> (L - M) mod a = 0.
Proof.
  intros Ha Hle HL HM.
  destruct (mod0_mul _ _ Ha HL) as [q ->]. destruct (mod0_mul _ _ Ha HM) as [r ->].
  replace (q * a - r * a) with ((q - r) * a) by nia. apply N.mod_mul; lia. Qed.

Lemma add_mod_0 x y a : 0 < a -> x mod a = 0 -> y mod a = 0 -> (x + y) mod a = 0.
Proof.
  intros Ha Hx Hy.
  destruct (mod0_mul _ _ Ha Hx) as [q ->]. destruct (mod0_mul _ _ Ha Hy) as [r ->].
  replace (q * a + r * a) with ((q + r) * a) by nia. apply N.mod_mul; lia. Qed.

Lemma extend_pad_r a l :
  valid a -> valid l ->
  match extend a (pad_to_align l) with Some (x, _) => Some (pad_to_align x) | None => None end =
  match extend a l with Some (x, _) => Some (pad_to_align x) | None => None end.
Proof.
  intros Hva Hvl.
  pose proof (valid_alog _ Hva) as Hka. pose proof (valid_alog _ Hvl) as Hkl.
  unfold extend, from_size_align, lalign. cbn [pad_to_align lsize lalog]. unfold lalign.
  set (al := 2 ^ lalog l). set (K := N.max (lalog a) (lalog l)).
  set (off := round_up (lsize a) al).
  assert (0 < al) as Hal by apply pow2_pos.
  assert (0 < 2 ^ K) as HM by apply pow2_pos.
  assert (2 ^ K mod al = 0) as HMal by (apply pow2_mod; unfold K; lia).
  assert (isize_lim mod al = 0) as HLal by (apply lim_mod; exact Hkl).
  assert (off mod al = 0) as Hoff by (apply round_up_mod; exact Hal).
  assert (off + round_up (lsize l) al = round_up (off + lsize l) al) as Hsum
    by (symmetry; apply round_up_add_mult; assumption).
  destruct (N.leb_spec (off + lsize l + 2 ^ K) isize_lim) as [H1|H1];
  destruct (N.leb_spec (off + round_up (lsize l) al + 2 ^ K) isize_lim) as [H2|H2].
  - f_equal. unfold pad_to_align, lalign; cbn [lsize lalog]. f_equal.
    rewrite Hsum. apply round_up_round_up; assumption.
  - exfalso. rewrite Hsum in H2.
    assert (round_up (off + lsize l) al <= isize_lim - 2 ^ K); [|lia].
    apply round_up_least; [exact Hal| |lia].
    apply sub_mod_0; auto. lia.
  - exfalso. pose proof (round_up_ge (lsize l) al Hal). lia.
  - reflexivity. Qed.

(** ** Chain normalisation (so that harmless rewrites of a chain keep the theorems) *)
Fixpoint lnorm (e : lexpr) : lexpr :=
  match e with
  | LPad a => match lnorm a with LPad b => LPad b | b => LPad b end
  | LExtend0 a b => LExtend0 (lnorm a) (lnorm b)
  | LForValue t => LNew t
  | x => x
  end.

Lemma lnorm_sound env e : leval env (lnorm e) = leval env e.
Proof.
  induction e as [t|t|t|t| |a IHa b IHb|a IH| ]; cbn [lnorm]; try reflexivity.
  - cbn [leval]. rewrite IHa, IHb. reflexivity.
  - assert (leval env (LPad (lnorm a)) = leval env (LPad a)) as E by (cbn [leval]; rewrite IH; reflexivity).
    destruct (lnorm a) as [ | | | | | |a'| ] eqn:En; try exact E.
    rewrite <- E. cbn [leval]. destruct (leval env a') as [la| |]; try reflexivity.
    rewrite pad_to_align_idem. reflexivity. Qed.

Definition onorm (e : oexpr) : oexpr :=
  match e with OExtend1 a b => OExtend1 (lnorm a) (lnorm b) | OUnknown => OUnknown end.
Lemma onorm_sound env e : oeval env (onorm e) = oeval env e.
Proof. destruct e; cbn; [rewrite !lnorm_sound|]; reflexivity. Qed.

Definition strip_pad (e : lexpr) : lexpr := match e with LPad a => a | a => a end.

(** Canonical forms of the crate's chains *)
Definition canon_afl : lexpr := LPad (LExtend0 (LNew (TyArcInner TyUnit)) LParam).
Definition canon_afhs_core : lexpr := LExtend0 (LNew (TyVar 1)) (LArrayUnwrap (TyVar 0)).
Definition canon_ood : oexpr := OExtend1 (LNew TyUsize) (LNew (TyVar 0)).

Definition with_param (env : lenv) (l : layout) : lenv :=
  mkEnv (e_T env) (e_H env) (e_len env) (Some l).

(** ** [allocate_for_layout]: the block requested is the layout of [ArcInner<P>]
    whenever the value layout passed in is the layout of [P]. *)
Theorem afl_correct c P lp env :
  lnorm c = canon_afl -> layout_of P = Some lp -> e_param env = Some lp ->
  leval env c = of_opt (layout_of (s_ArcInner P)).
Proof.
  intros Hc HP Hpar. rewrite <- lnorm_sound, Hc. unfold canon_afl.
  cbn [leval ty_shape option_map]. rewrite layout_ArcInner_unit, Hpar.
  rewrite (layout_ArcInner P lp HP).
  destruct (extend (mkL 8 3) lp) as [[l o]|]; reflexivity. Qed.

(** The same, when the value layout passed in lacks its final padding. *)
Lemma afl_correct_unpadded c l env :
  lnorm c = canon_afl -> valid l -> e_param env = Some l ->
  leval env c =
  of_opt (match extend (mkL 8 3) (pad_to_align l) with Some (x, _) => Some (pad_to_align x) | None => None end).
Proof.
  intros Hc Hv Hpar. rewrite <- lnorm_sound, Hc. unfold canon_afl.
  cbn [leval ty_shape option_map]. rewrite layout_ArcInner_unit, Hpar.
  rewrite (extend_pad_r (mkL 8 3) l valid_usize Hv).
  destruct (extend (mkL 8 3) l) as [[x o]|]; reflexivity. Qed.

(** ** [allocate_for_header_and_slice] *)
Theorem afhs_correct vc ac H T n env lh lt :
  strip_pad (lnorm vc) = canon_afhs_core -> lnorm ac = canon_afl ->
  e_H env = H -> e_T env = T -> e_len env = n ->
  wf_shape H -> layout_of H = Some lh -> layout_of T = Some lt ->
  leval2 env vc ac = of_opt (layout_of (s_ArcInner (s_HeaderSlice H (Arr T n)))).
Proof.
  intros Hvc Hac HH HT Hn HwfH HlH HlT.
  pose proof (tvalid_valid _ (layout_of_tvalid _ _ HwfH HlH)) as HvH.
  unfold leval2. rewrite <- (lnorm_sound env vc).
  assert (layout_of (Arr T n) = array lt n) as Harr by (cbn; rewrite HlT; reflexivity).
  (* the core of the value chain *)
  assert (leval env canon_afhs_core =
          match array lt n with
          | Some la => match extend lh la with Some (l, _) => LOk l | None => LPanic end
          | None => LPanic end) as Hcore.
  { unfold canon_afhs_core. cbn [leval ty_shape]. rewrite HH, HT, HlH, HlT, Hn.
    destruct (array lt n); reflexivity. }
  (* the type's layout *)
  assert (layout_of (s_HeaderSlice H (Arr T n)) =
          match array lt n with
          | Some la => match extend lh la with Some (l, _) => Some (pad_to_align l) | None => None end
          | None => None end) as Hty.
  { destruct (array lt n) as [la|] eqn:Ea.
    - unfold s_HeaderSlice. apply layout_of_struct2; [exact HlH|exact Harr|exact HvH].
    - unfold s_HeaderSlice. cbn. rewrite HlH, HlT, Ea. reflexivity. }
  assert (forall P, layout_of P = None -> layout_of (s_ArcInner P) = None) as Hnone.
  { intros P HP. cbn. rewrite HP. reflexivity. }
  destruct (lnorm vc) as [ | | | | | |vc'| ] eqn:Evc; cbn [strip_pad] in Hvc; try discriminate.
  - (* value chain without the final pad *)
    rewrite Hvc, Hcore.
    destruct (array lt n) as [la|] eqn:Ea; [|rewrite Hnone by exact Hty; reflexivity].
    destruct (extend lh la) as [[l o]|] eqn:Ee; [|rewrite Hnone by exact Hty; reflexivity].
    apply extend_some in Ee. destruct Ee as (_ & _ & Hvl).
    rewrite (afl_correct_unpadded ac l (mkEnv (e_T env) (e_H env) (e_len env) (Some l)) Hac Hvl eq_refl).
    rewrite (layout_ArcInner _ _ Hty). reflexivity.
  - (* value chain with the final pad *)
    subst vc'. cbn [leval]. rewrite Hcore.
    destruct (array lt n) as [la|] eqn:Ea; [|rewrite Hnone by exact Hty; reflexivity].
    destruct (extend lh la) as [[l o]|] eqn:Ee; [|rewrite Hnone by exact Hty; reflexivity].
    apply (afl_correct ac _ _ _ Hac Hty). reflexivity. Qed.

(** ** [offset_of_data] is the compiler's offset of [ArcInner::data] *)
Theorem ood_correct c P lp env :
  onorm c = canon_ood -> e_T env = P -> layout_of P = Some lp ->
  oeval env c = of_opt (struct_field_off [s_usize; P] 1).
Proof.
  intros Hc HT HP. rewrite <- onorm_sound, Hc. unfold canon_ood.
  cbn [oeval leval ty_shape]. rewrite HT, HP, layout_usize.
  rewrite (data_off_ArcInner P lp HP).
  destruct (extend (mkL 8 3) lp) as [[l o]|]; reflexivity. Qed.

(** ** The data offset: at least 8, a multiple of 8 and of the payload alignment *)
Theorem data_off_props P lp off :
  layout_of P = Some lp -> struct_field_off [s_usize; P] 1 = Some off ->
  8 <= off /\ off mod 8 = 0 /\ off mod lalign lp = 0 /\ off = round_up 8 (lalign lp).
Proof.
  intros HP Ho. rewrite (data_off_ArcInner P lp HP) in Ho.
  destruct (extend (mkL 8 3) lp) as [[l o]|] eqn:E; [|discriminate]. inversion Ho; subst o.
  apply extend_some in E. destruct E as (E & _ & _). cbn [lsize] in E. subst off.
  pose proof (pow2_pos (lalog lp)) as Hp. fold (lalign lp) in Hp.
  split; [apply round_up_ge; exact Hp|]. split; [|split; [apply round_up_mod; exact Hp|reflexivity]].
  destruct (N.le_gt_cases (lalog lp) 3) as [Hk|Hk].
  - rewrite round_up_id; [reflexivity|exact Hp|]. unfold lalign.
    change 8 with (2 ^ 3). apply pow2_mod; exact Hk.
  - apply (mod_mod_divide _ 8 (lalign lp)); [lia|exact Hp| |apply round_up_mod; exact Hp].
    unfold lalign. change 8 with (2 ^ 3). apply pow2_mod; lia. Qed.

Corollary data_addr_even base P lp off :
  layout_of P = Some lp -> struct_field_off [s_usize; P] 1 = Some off ->
  base mod 8 = 0 -> (base + off) mod 2 = 0.
Proof.
  intros HP Ho Hb. destruct (data_off_props _ _ _ HP Ho) as (_ & H8 & _).
  apply (mod_mod_divide _ 2 8); [lia|lia|reflexivity|]. apply add_mod_0; [lia|exact Hb|exact H8]. Qed.

(** ** Exact content never exceeds the layout (no short block) *)
Fixpoint raw_size (t : shape) : N :=
  match t with
  | Prim s _ => s
  | Arr e n => raw_size e * n
  | StructC fs => fold_right (fun f acc => raw_size f + acc) 0 fs
  | Transp f => raw_size f
  end.

Lemma struct_fold_size ls : forall acc l,
  struct_fold acc ls = Some l -> lsize acc + fold_right (fun x a => lsize x + a) 0 ls <= lsize l.
Proof.
  induction ls as [|x ls IH]; cbn; intros acc l H.
  - inversion H; subst; lia.
  - destruct (extend acc x) as [[acc' o]|] eqn:E; [|discriminate].
    apply extend_some in E. destruct E as (-> & -> & _). apply IH in H. cbn in H.
    pose proof (round_up_ge (lsize acc) (lalign x) (pow2_pos _)). lia. Qed.

Theorem layout_covers_content t l : layout_of t = Some l -> raw_size t <= lsize l /\ lsize l < isize_lim.
Proof.
  revert l; induction t as [s k|e n IH|fs IH|f IH] using shape_ind'; intros l H.
  - cbn [layout_of] in H. apply from_size_align_some in H. destruct H as [-> H]. cbn [raw_size lsize].
    pose proof (pow2_pos k). lia.
  - cbn [layout_of] in H. destruct (layout_of e) as [le|]; [|discriminate].
    destruct (IH _ eq_refl) as [IH1 _].
    unfold array in H. apply from_size_align_some in H. destruct H as [-> H]. cbn [raw_size lsize].
    pose proof (pow2_pos (lalog le)). split; [nia|lia].
  - cbn in H. destruct (all_some (map layout_of fs)) as [ls|] eqn:E; [|discriminate].
    destruct (struct_fold (mkL 0 0) ls) as [l0|] eqn:E2; [|discriminate].
    inversion H; subst; clear H. apply all_some_Forall2 in E.
    assert (raw_size (StructC fs) <= fold_right (fun x a => lsize x + a) 0 ls) as Hsum.
    { cbn. clear E2. induction E as [|a b l l' Hab _ IH2]; cbn; [lia|].
      inversion IH; subst. destruct (H1 _ Hab) as [? _]. specialize (IH2 H2). lia. }
    pose proof (struct_fold_size _ _ _ E2) as Hs. cbn [lsize] in Hs.
    assert (valid l0) as Hv.
    { destruct ls as [|x ls]; cbn in E2.
      - inversion E2; apply valid_zero.
      - clear - E2. revert E2. generalize (mkL 0 0). revert x l0.
        induction ls as [|y ls IH]; cbn; intros x l0 acc H.
        + destruct (extend acc x) as [[a o]|] eqn:E; [|discriminate]. inversion H; subst.
          apply extend_some in E. tauto.
        + destruct (extend acc x) as [[a o]|] eqn:E; [|discriminate]. eapply IH; exact H. }
    pose proof (pad_to_align_valid _ Hv) as Hv'. unfold valid in Hv'.
    pose proof (pow2_pos (lalog (pad_to_align l0))) as Hp. unfold lalign in Hv'.
    split; [|lia]. cbn [pad_to_align lsize].
    pose proof (round_up_ge (lsize l0) (lalign l0) (pow2_pos _)). lia.
  - cbn in *. auto. Qed.

(** ** A thin pointer's zero-length view has the same field offsets as the real slice *)
Lemma layout_of_struct2_some a b l :
  layout_of (StructC [a; b]) = Some l -> exists la lb, layout_of a = Some la /\ layout_of b = Some lb.
Proof.
  cbn [layout_of map all_some].
  destruct (layout_of a) as [la|]; [|discriminate].
  destruct (layout_of b) as [lb|]; [|discriminate]. eauto. Qed.

Lemma layout_of_arr_some e n l :
  layout_of (Arr e n) = Some l -> exists le, layout_of e = Some le /\ array le n = Some l.
Proof. cbn [layout_of]. destruct (layout_of e) as [le|]; [|discriminate]. eauto. Qed.

Lemma layout_valid_struct fs l : layout_of (StructC fs) = Some l -> valid l.
Proof.
  cbn [layout_of]. destruct (all_some (map layout_of fs)) as [ls|]; [|discriminate].
  destruct (struct_fold (mkL 0 0) ls) as [l0|] eqn:E2; [|discriminate].
  intros H; inversion H; subst; clear H. apply pad_to_align_valid.
  destruct ls as [|x ls]; cbn in E2.
  - inversion E2; apply valid_zero.
  - revert E2. generalize (mkL 0 0). revert x l0.
    induction ls as [|y ls IH]; cbn; intros x l0 acc H.
    + destruct (extend acc x) as [[a o]|] eqn:E; [|discriminate]. inversion H; subst.
      apply extend_some in E. tauto.
    + destruct (extend acc x) as [[a o]|] eqn:E; [|discriminate]. eapply IH; exact H. Qed.

Theorem thin_prefix_offsets H T n L :
  layout_of (s_ArcInner (s_HeaderSlice (s_HeaderWithLength H) (Arr T n))) = Some L ->
  let fat := s_HeaderSlice (s_HeaderWithLength H) (Arr T n) in
  let thin := s_HeaderSlice (s_HeaderWithLength H) (Arr T 0) in
  struct_field_off [s_usize; thin] 1 = struct_field_off [s_usize; fat] 1 /\
  struct_field_off [s_HeaderWithLength H; Arr T 0] 0 = struct_field_off [s_HeaderWithLength H; Arr T n] 0 /\
  struct_field_off [s_HeaderWithLength H; Arr T 0] 1 = struct_field_off [s_HeaderWithLength H; Arr T n] 1.
Proof.
  intros HL fat thin. subst fat thin.
  set (fat := s_HeaderSlice (s_HeaderWithLength H) (Arr T n)) in *.
  set (thin := s_HeaderSlice (s_HeaderWithLength H) (Arr T 0)).
  destruct (layout_of_struct2_some _ _ _ HL) as (lu & lfat & Hu & Hfat).
  destruct (layout_of_struct2_some _ _ _ Hfat) as (lhw & lan & Hhw & Han).
  destruct (layout_of_arr_some _ _ _ Han) as (lt & HlT & Ean).
  pose proof (layout_valid_struct _ _ Hhw) as Hvhw.
  unfold array in Ean. apply from_size_align_some in Ean. destruct Ean as [-> Hlan].
  assert (layout_of (Arr T 0) = Some (mkL 0 (lalog lt))) as H0.
  { cbn [layout_of]. rewrite HlT. unfold array. rewrite N.mul_0_r. apply from_size_align_ok. lia. }
  pose proof Hfat as Hfat2. unfold fat, s_HeaderSlice in Hfat2.
  rewrite (layout_of_struct2 _ _ _ _ Hhw Han Hvhw) in Hfat2.
  destruct (extend lhw (mkL (lsize lt * n) (lalog lt))) as [[lx ox]|] eqn:Ex; [|discriminate].
  inversion Hfat2; subst lfat; clear Hfat2.
  pose proof Ex as Ex'. apply extend_some in Ex'. destruct Ex' as (Hox & Hlx & Hvx).
  cbn [lsize lalog lalign] in Hox, Hlx. unfold lalign in Hox; cbn [lalog] in Hox.
  assert (extend lhw (mkL 0 (lalog lt)) =
          Some (mkL (ox + 0) (N.max (lalog lhw) (lalog lt)), ox)) as Ex0.
  { unfold extend. cbn [lsize lalog]. unfold lalign; cbn [lalog]. rewrite <- Hox.
    rewrite from_size_align_ok; [reflexivity|].
    subst lx. unfold valid, lalign in Hvx. cbn [lsize lalog] in Hvx. lia. }
  assert (layout_of thin = Some (pad_to_align (mkL (ox + 0) (N.max (lalog lhw) (lalog lt))))) as Ethin.
  { unfold thin, s_HeaderSlice. rewrite (layout_of_struct2 _ _ _ _ Hhw H0 Hvhw), Ex0. reflexivity. }
  split; [|split].
  - rewrite (data_off_ArcInner _ _ Ethin), (data_off_ArcInner _ _ Hfat).
    rewrite (layout_ArcInner _ _ Hfat) in HL.
    destruct (extend (mkL 8 3) (pad_to_align lx)) as [[lz oz]|] eqn:Ez; [|discriminate].
    apply extend_some in Ez. destruct Ez as (Hoz & Hlz & Hvz).
    subst lx. unfold lalign in Hoz. cbn [pad_to_align lsize lalog] in Hoz, Hlz.
    unfold extend, lalign. cbn [pad_to_align lsize lalog]. unfold lalign; cbn [lalog].
    rewrite <- Hoz. rewrite from_size_align_ok; [reflexivity|].
    subst lz. unfold valid, lalign in Hvz. cbn [lsize lalog] in Hvz.
    set (A := 2 ^ N.max (lalog lhw) (lalog lt)) in *.
    assert (0 < A) by apply pow2_pos.
    assert (round_up (ox + 0) A <= round_up (ox + lsize lt * n) A); [|lia].
    apply round_up_mono; auto. lia.
  - rewrite (struct2_field0 _ _ _ _ Hhw H0 Hvhw), (struct2_field0 _ _ _ _ Hhw Han Hvhw). reflexivity.
  - rewrite (struct2_field1 _ _ _ _ Hhw H0 Hvhw), (struct2_field1 _ _ _ _ Hhw Han Hvhw), Ex0, Ex. reflexivity. Qed.

(** ** The [ArcInner<HeaderSlice<H,[T]>>] block in detail *)
Lemma header_slice_decompose H T n lh lt L :
  layout_of H = Some lh -> layout_of T = Some lt ->
  layout_of (s_ArcInner (s_HeaderSlice H (Arr T n))) = Some L ->
  exists lhs lx ly doff soff,
    layout_of (s_HeaderSlice H (Arr T n)) = Some lhs /\
    extend lh (mkL (lsize lt * n) (lalog lt)) = Some (lx, soff) /\ lhs = pad_to_align lx /\
    extend (mkL 8 3) lhs = Some (ly, doff) /\ L = pad_to_align ly /\
    struct_field_off [s_usize; s_HeaderSlice H (Arr T n)] 1 = Some doff /\
    struct_field_off [H; Arr T n] 1 = Some soff /\ valid lh.
Proof.
  intros HlH HlT HL.
  destruct (layout_of_struct2_some _ _ _ HL) as (lu & lhs & Hu & Hhs).
  destruct (layout_of_struct2_some _ _ _ Hhs) as (lh' & la & HlH' & Hla).
  rewrite HlH in HlH'. inversion HlH'; subst lh'; clear HlH'.
  destruct (layout_of_arr_some _ _ _ Hla) as (lt' & HlT' & Ea).
  rewrite HlT in HlT'. inversion HlT'; subst lt'; clear HlT'.
  unfold array in Ea. apply from_size_align_some in Ea. destruct Ea as [-> _].
  assert (valid lh) as Hvh.
  { (* H's layout is valid because it came out of from_size_align or a struct fold *)
    pose proof Hhs as Hhs'. unfold s_HeaderSlice in Hhs'. cbn [layout_of map all_some] in Hhs'.
    rewrite HlH in Hhs'. fold (layout_of (Arr T n)) in Hhs'.
    change (match layout_of T with Some le => array le n | None => None end) with (layout_of (Arr T n)) in Hhs'.
    rewrite Hla in Hhs'. cbn [struct_fold] in Hhs'.
    destruct (extend (mkL 0 0) lh) as [[a0 o0]|] eqn:E0; [|discriminate].
    apply extend_some in E0. destruct E0 as (Ho0 & Ha0 & Hv0). cbn [lsize lalog] in *.
    rewrite round_up_0 in Ho0 by apply pow2_pos. subst o0.
    rewrite N.add_0_l, N.max_0_l in Ha0. subst a0. destruct lh; exact Hv0. }
  pose proof Hhs as Hhs2. unfold s_HeaderSlice in Hhs2.
  rewrite (layout_of_struct2 _ _ _ _ HlH Hla Hvh) in Hhs2.
  destruct (extend lh (mkL (lsize lt * n) (lalog lt))) as [[lx soff]|] eqn:Ex; [|discriminate].
  inversion Hhs2; subst lhs; clear Hhs2.
  pose proof HL as HL2. rewrite (layout_ArcInner _ _ Hhs) in HL2.
  destruct (extend (mkL 8 3) (pad_to_align lx)) as [[ly doff]|] eqn:Ey; [|discriminate].
  inversion HL2; subst L; clear HL2.
  exists (pad_to_align lx), lx, ly, doff, soff. repeat split; auto.
  - rewrite (data_off_ArcInner _ _ Hhs), Ey. reflexivity.
  - rewrite (struct2_field1 _ _ _ _ HlH Hla Hvh), Ex. reflexivity. Qed.

Theorem header_slice_block_covers H T n lh lt :
  layout_of H = Some lh -> layout_of T = Some lt ->
  match of_opt (layout_of (s_ArcInner (s_HeaderSlice H (Arr T n)))) with
  | LOk L => 8 + lsize lh + lsize lt * n <= lsize L /\ lsize L < isize_lim
  | LPanic => True
  | LStuck => False
  end /\
  (isize_lim <= 8 + lsize lh + lsize lt * n ->
   of_opt (layout_of (s_ArcInner (s_HeaderSlice H (Arr T n)))) = LPanic).
Proof.
  intros HlH HlT.
  destruct (layout_of (s_ArcInner (s_HeaderSlice H (Arr T n)))) as [L|] eqn:EL; cbn [of_opt].
  - destruct (header_slice_decompose _ _ _ _ _ _ HlH HlT EL)
      as (lhs & lx & ly & doff & soff & _ & Ex & -> & Ey & -> & _ & _ & _).
    apply extend_some in Ex. destruct Ex as (Hsoff & Hlx & _).
    apply extend_some in Ey. destruct Ey as (Hdoff & Hly & Hvy).
    pose proof (pad_to_align_valid _ Hvy) as Hvp. unfold valid in Hvp.
    pose proof (pow2_pos (lalog (pad_to_align ly))) as Hpp. unfold lalign in Hvp.
    assert (8 + lsize lh + lsize lt * n <= lsize (pad_to_align ly)) as Hcov.
    { subst ly lx. cbn [pad_to_align lsize lalog lalign] in *.
      pose proof (round_up_ge (lsize lh) (lalign (mkL (lsize lt * n) (lalog lt))) (pow2_pos _)).
      pose proof (round_up_ge 8 (lalign (pad_to_align (mkL (soff + lsize lt * n) (N.max (lalog lh) (lalog lt))))) (pow2_pos _)).
      match goal with |- _ <= round_up ?x ?a => pose proof (round_up_ge x a (pow2_pos _)) end.
      match goal with |- context [round_up (soff + lsize lt * n) ?a] =>
        pose proof (round_up_ge (soff + lsize lt * n) a (pow2_pos _)) end.
      cbn [pad_to_align lsize lalog lalign] in *. lia. }
    split; [split; [exact Hcov|lia]|intros; lia].
  - split; [exact I|reflexivity]. Qed.

Theorem header_slice_block_fits :
  forall H T n lh lt L,
    layout_of H = Some lh -> layout_of T = Some lt -> wf_shape T ->
    layout_of (s_ArcInner (s_HeaderSlice H (Arr T n))) = Some L ->
    exists doff soff,
      struct_field_off [s_usize; s_HeaderSlice H (Arr T n)] 1 = Some doff /\
      struct_field_off [H; Arr T n] 1 = Some soff /\
      8 <= doff /\ doff mod lalign lh = 0 /\ (doff + soff) mod lalign lt = 0 /\
      lsize lh <= soff /\
      doff + soff + lsize lt * n <= lsize L /\
      lalog lh <= lalog L /\ lalog lt <= lalog L /\ 3 <= lalog L /\
      (forall i, i < n -> (doff + soff + i * lsize lt) mod lalign lt = 0 /\
                          doff + soff + i * lsize lt + lsize lt <= lsize L).
Proof.
  intros H T n lh lt L HlH HlT HwfT HL.
  destruct (header_slice_decompose _ _ _ _ _ _ HlH HlT HL)
    as (lhs & lx & ly & doff & soff & Hhs & Ex & -> & Ey & -> & Hd & Hs & Hvh).
  exists doff, soff. split; [exact Hd|]. split; [exact Hs|].
  apply extend_some in Ex. destruct Ex as (Hsoff & Hlx & Hvx).
  apply extend_some in Ey. destruct Ey as (Hdoff & Hly & Hvy).
  destruct (layout_of_tvalid _ _ HwfT HlT) as (Hvt & Hmt & Hkt).
  subst lx ly. cbn [pad_to_align lsize lalog lalign] in *.
  unfold lalign in *. cbn [pad_to_align lsize lalog] in *.
  set (K := N.max (lalog lh) (lalog lt)) in *.
  pose proof (pow2_pos (lalog lh)) as Hph. pose proof (pow2_pos (lalog lt)) as Hpt.
  pose proof (pow2_pos K) as HpK.
  assert (doff mod 2 ^ K = 0) as HdK by (subst doff; apply round_up_mod; exact HpK).
  assert (8 <= doff) as Hd8 by (subst doff; apply round_up_ge; exact HpK).
  assert (soff mod 2 ^ lalog lt = 0) as HsT by (subst soff; apply round_up_mod; exact Hpt).
  assert (lsize lh <= soff) as Hhle by (subst soff; apply round_up_ge; exact Hpt).
  assert (doff mod 2 ^ lalog lh = 0) as HdH.
  { apply (mod_mod_divide _ _ (2 ^ K)); auto. apply pow2_mod. unfold K; lia. }
  assert (doff mod 2 ^ lalog lt = 0) as HdT.
  { apply (mod_mod_divide _ _ (2 ^ K)); auto. apply pow2_mod. unfold K; lia. }
  pose proof (round_up_ge (soff + lsize lt * n) (2 ^ K) HpK) as Hr1.
  match goal with |- context [round_up (doff + ?x) ?a] =>
    pose proof (round_up_ge (doff + x) a (pow2_pos _)) as Hr2 end.
  split; [exact Hd8|]. split; [exact HdH|].
  split; [apply add_mod_0; assumption|]. split; [exact Hhle|].
  split; [lia|]. split; [unfold K; lia|]. split; [unfold K; lia|]. split; [lia|].
  intros i Hi. split.
  - apply add_mod_0; [exact Hpt|apply add_mod_0; assumption|].
    destruct (mod0_mul _ _ Hpt Hmt) as [q Hq]. rewrite Hq.
    replace (i * (q * 2 ^ lalog lt)) with ((i * q) * 2 ^ lalog lt) by lia.
    apply N.mod_mul. lia.
  - assert (i * lsize lt + lsize lt <= lsize lt * n) by nia. lia. Qed.
