(** * CtorProofs.v — what the constructors do with every element, for every iterator behaviour:
    any answers to [len()]/[size_hint()] (changing between calls or not), any number of items, a panic at
    any call of [next()]. *)
From Coq Require Import NArith List Bool Arith Lia.
From TV Require Import Ctor.
Import ListNotations.
Open Scope N_scope.

(** ** one call of next() *)
Lemma call_next_spec sc it :
  match call_next sc it with
  | (NSome t, it') => it_rest it = t :: it_rest it'
  | (NNone, it') => it_rest it = [] /\ it_rest it' = []
  | (NPanic, it') => it_rest it' = it_rest it
  end.
Proof.
  unfold call_next. destruct (Nat.eqb (S (it_next_calls it)) (sc_panic sc)); simpl; auto.
  destruct (it_rest it); simpl; auto.
Qed.

(** the fill loop: whatever happens, "written so far ++ still in the iterator (or dropped with it)" is the input *)
Lemma fill_spec sc : forall n acc it,
  match fill sc n acc it with
  | inl (acc', it') => acc' ++ it_rest it' = acc ++ it_rest it /\ length acc' = (length acc + n)%nat
  | inr (acc', d) => acc' ++ d = acc ++ it_rest it /\ (length acc' < length acc + n)%nat
  end.
Proof.
  induction n as [|n IH]; intros acc it; simpl.
  - split; [reflexivity|lia].
  - pose proof (call_next_spec sc it) as N. destruct (call_next sc it) as [[t| |] it'].
    + specialize (IH (acc ++ [t]) it'). destruct (fill sc n (acc ++ [t]) it') as [[acc' it'']|[acc' d]];
        rewrite app_length in IH; simpl in IH; destruct IH as [A B]; rewrite N, <- app_assoc in *; simpl in *; split; auto; lia.
    + destruct N as [N1 N2]. rewrite N1, N2. split; [reflexivity|lia].
    + rewrite N. split; [reflexivity|lia].
Qed.

(** ** Arc::from_header_and_iter *)
(** conservation: every item is in exactly one place, in order -- in the result (or the leaked half-built block) or
    destroyed; and a handle is only returned when exactly the reported number of slots was written and the
    iterator had nothing left *)
Theorem fhai_conserves sc h it :
  match fhai sc h it with
  | (Built h' rl cells dropped, n) => h' = h /\ cells = it_rest it /\ dropped = [] /\ N.of_nat (length cells) = n
  | (Leaked h' cells dropped, _) => h' = h /\ cells ++ dropped = it_rest it
  | (Failed _, _) => False
  end.
Proof.
  unfold fhai. destruct (call_len sc it) as [n it1] eqn:El.
  assert (R1 : it_rest it1 = it_rest it) by (unfold call_len in El; inversion El; reflexivity).
  pose proof (fill_spec sc (N.to_nat n) [] it1) as F.
  destruct (fill sc (N.to_nat n) [] it1) as [[acc it2]|[acc d]]; simpl in F.
  - destruct F as [F1 F2]. pose proof (call_next_spec sc it2) as N.
    destruct (call_next sc it2) as [[t| |] it3].
    + split; auto. rewrite N in F1. rewrite <- R1, <- F1. reflexivity.
    + destruct N as [N1 N2]. rewrite N1, app_nil_r in F1. rewrite N2. repeat split; auto; try congruence. rewrite F2. lia.
    + split; auto. rewrite N. congruence.
  - destruct F as [F1 _]. split; auto. congruence.
Qed.

(** honest iterators (len() is the number of items, next() never panics) always succeed *)
Lemma fill_honest sc : sc_panic sc = 0%nat -> forall n acc it, n = length (it_rest it) ->
  exists it', fill sc n acc it = inl (acc ++ it_rest it, it') /\ it_rest it' = [].
Proof.
  intros Hp. induction n as [|n IH]; intros acc it Hn; simpl.
  - destruct (it_rest it) eqn:E; [|discriminate]. exists it. rewrite app_nil_r. auto.
  - unfold call_next. rewrite Hp. simpl. destruct (it_rest it) as [|t r] eqn:E; [discriminate|].
    simpl in Hn. injection Hn as Hn.
    destruct (IH (acc ++ [t]) (mkI (it_len_calls it) (it_hint_calls it) (S (it_next_calls it)) r) Hn) as (it' & A & B).
    exists it'. simpl in A. rewrite A, <- app_assoc. auto.
Qed.

Theorem fhai_exact sc h it :
  sc_panic sc = 0%nat -> fst (call_len sc it) = N.of_nat (length (it_rest it)) ->
  fst (fhai sc h it) = Built h 0 (it_rest it) [].
Proof.
  intros Hp Hl. unfold fhai. destruct (call_len sc it) as [n it1] eqn:El. simpl in Hl. subst n.
  assert (R1 : it_rest it1 = it_rest it) by (unfold call_len in El; inversion El; reflexivity).
  rewrite Nat2N.id. destruct (fill_honest sc Hp (length (it_rest it)) [] it1) as (it2 & A & B); [congruence|].
  rewrite A. simpl. unfold call_next. rewrite Hp, B. simpl. rewrite R1. reflexivity.
Qed.

(** ** ThinArc::from_header_and_iter: a handle comes back only with the true length recorded; otherwise every token
    (header included) is accounted for: leaked with the half-built block, or destroyed exactly once *)
Theorem thin_conserves sc h it :
  match thin_fhai sc h it with
  | Built h' rl cells dropped => h' = Some h /\ cells = it_rest it /\ dropped = [] /\ rl = N.of_nat (length cells)
  | Leaked h' cells dropped => h' = Some h /\ cells ++ dropped = it_rest it
  | Failed d => d = h :: it_rest it
  end.
Proof.
  unfold thin_fhai. destruct (call_len sc it) as [n1 it1] eqn:El.
  assert (R1 : it_rest it1 = it_rest it) by (unfold call_len in El; inversion El; reflexivity).
  pose proof (fhai_conserves sc (Some h) it1) as F.
  destruct (fhai sc (Some h) it1) as [[h' rl cells dropped|h' cells dropped|d] n]; try contradiction.
  - destruct F as (A & B & C & D). subst. destruct (n1 =? N.of_nat (length (it_rest it1))) eqn:E.
    + apply N.eqb_eq in E. rewrite R1 in *. auto.
    + rewrite R1. reflexivity.
  - destruct F as [A B]. rewrite R1 in B. auto.
Qed.

(** ** collecting *)
Lemma collect_spec sc : forall fuel acc it, (length (it_rest it) < fuel)%nat ->
  match collect sc fuel acc it with
  | inl v => v = acc ++ it_rest it
  | inr d => exists pre post, pre ++ post = it_rest it /\ d = post ++ acc ++ pre
  end.
Proof.
  induction fuel as [|f IH]; intros acc it Hf; [lia|]. simpl.
  pose proof (call_next_spec sc it) as N. destruct (call_next sc it) as [[t| |] it'].
  - rewrite N in Hf. simpl in Hf. specialize (IH (acc ++ [t]) it' ltac:(lia)).
    destruct (collect sc f (acc ++ [t]) it') as [v|d].
    + rewrite IH, N, <- app_assoc. reflexivity.
    + destruct IH as (pre & post & A & B). exists (t :: pre), post. rewrite N. simpl. rewrite A. split; auto.
      rewrite B, <- !app_assoc. reflexivity.
  - destruct N as [N1 _]. rewrite N1, app_nil_r. reflexivity.
  - exists [], (it_rest it). rewrite N. simpl. rewrite app_nil_r. auto.
Qed.

(** ** FromIterator (both paths) *)
Theorem from_iter_conserves dbg sc it :
  match from_iter dbg sc it with
  | Built h _ cells dropped => h = None /\ cells = it_rest it /\ dropped = []
  | Leaked h cells dropped => h = None /\ cells ++ dropped = it_rest it
  | Failed d => exists pre post, pre ++ post = it_rest it /\ d = post ++ pre
  end.
Proof.
  unfold from_iter. destruct (call_hint sc it) as [[lo hi] it1] eqn:E1.
  assert (R1 : it_rest it1 = it_rest it) by (unfold call_hint in E1; inversion E1; reflexivity).
  destruct (match hi with Some u => lo =? u | None => false end).
  - destruct (call_hint sc it1) as [[lo2 hi2] it2] eqn:E2.
    assert (R2 : it_rest it2 = it_rest it) by (unfold call_hint in E2; inversion E2; simpl; congruence).
    destruct (dbg && negb _); [exists [], (it_rest it); rewrite R2, app_nil_r; auto|].
    destruct (call_hint sc it2) as [[lo3 hi3] it3] eqn:E3.
    assert (R3 : it_rest it3 = it_rest it) by (unfold call_hint in E3; inversion E3; simpl; congruence).
    destruct (dbg && negb _); [exists [], (it_rest it); rewrite R3, app_nil_r; auto|].
    pose proof (fill_spec sc (N.to_nat lo3) [] it3) as F.
    destruct (fill sc (N.to_nat lo3) [] it3) as [[acc it4]|[acc d]]; simpl in F.
    + destruct F as [F1 F2]. pose proof (call_next_spec sc it4) as N.
      destruct (call_next sc it4) as [[t| |] it5].
      * split; auto. rewrite N in F1. congruence.
      * destruct N as [N1 N2]. rewrite N1, app_nil_r in F1. rewrite N2. repeat split; congruence.
      * split; auto. rewrite N. congruence.
    + destruct F as [F1 _]. split; auto. congruence.
  - pose proof (collect_spec sc (S (length (it_rest it1))) [] it1 ltac:(lia)) as C.
    destruct (collect sc (S (length (it_rest it1))) [] it1) as [v|d].
    + simpl in C. repeat split; congruence.
    + destruct C as (pre & post & A & B). exists pre, post. simpl in B. split; congruence.
Qed.

(** honest: no hints scripted (the default: lower = upper = what is left) or one constant hint that, if it claims
    exactness, is right -- both paths deliver exactly the items, in order *)
Lemma collect_honest sc : sc_panic sc = 0%nat -> forall fuel acc it0, (length (it_rest it0) < fuel)%nat ->
  collect sc fuel acc it0 = inl (acc ++ it_rest it0).
Proof.
  intros Hp. induction fuel as [|f IH]; intros acc it0 Hf; [lia|]. simpl. unfold call_next. rewrite Hp. simpl.
  destruct (it_rest it0) as [|t r] eqn:Er; [rewrite app_nil_r; reflexivity|].
  simpl in Hf. rewrite IH by (simpl; lia). simpl. rewrite <- app_assoc. reflexivity.
Qed.

Theorem from_iter_exact dbg sc it :
  sc_panic sc = 0%nat ->
  (sc_hints sc = [] \/ exists lo hi, sc_hints sc = [(lo, hi)] /\ (hi = Some lo -> lo = N.of_nat (length (it_rest it)))) ->
  from_iter dbg sc it = Built None 0 (it_rest it) [].
Proof.
  intros Hp Hh. unfold from_iter.
  destruct (call_hint sc it) as [[lo hi] it1] eqn:E1.
  assert (Hconst : forall it0, it_rest it0 = it_rest it -> fst (call_hint sc it0) = (lo, hi) /\ it_rest (snd (call_hint sc it0)) = it_rest it).
  { intros it0 R. assert (X : fst (call_hint sc it0) = fst (call_hint sc it) /\ it_rest (snd (call_hint sc it0)) = it_rest it).
    { unfold call_hint. destruct Hh as [Hh|(lo' & hi' & Hh & _)]; rewrite Hh; unfold pick; simpl; rewrite ?Nat.min_0_r; simpl; [rewrite R|]; auto. }
    rewrite E1 in X. exact X. }
  assert (Hexact : match hi with Some u => lo =? u | None => false end = true -> lo = N.of_nat (length (it_rest it))).
  { assert (X : fst (call_hint sc it) = (lo, hi)) by (rewrite E1; reflexivity). revert X.
    unfold call_hint. destruct Hh as [Hh|(lo' & hi' & Hh & Hx)]; rewrite Hh; unfold pick; simpl; rewrite ?Nat.min_0_r; simpl; intros X; inversion X; subst; auto.
    intros E. destruct hi as [u|]; [|discriminate]. apply N.eqb_eq in E. subst u. auto. }
  assert (R1 : it_rest it1 = it_rest it) by (destruct (Hconst it eq_refl) as [_ R]; rewrite E1 in R; exact R).
  destruct (match hi with Some u => lo =? u | None => false end) eqn:Ex.
  - specialize (Hexact eq_refl).
    destruct (Hconst it1 R1) as [A2 R2]. destruct (call_hint sc it1) as [[lo2 hi2] it2] eqn:E2. simpl in A2, R2. inversion A2; subst lo2 hi2.
    rewrite Ex, andb_false_r.
    destruct (Hconst it2 R2) as [A3 R3]. destruct (call_hint sc it2) as [[lo3 hi3] it3] eqn:E3. simpl in A3, R3. inversion A3; subst lo3 hi3.
    rewrite Ex, andb_false_r. rewrite Hexact, Nat2N.id.
    destruct (fill_honest sc Hp (length (it_rest it)) [] it3) as (it4 & A & B); [congruence|].
    rewrite A. simpl. unfold call_next. rewrite Hp, B. simpl. rewrite R3. reflexivity.
  - rewrite (collect_honest sc Hp) by lia. simpl. rewrite R1. reflexivity.
Qed.
