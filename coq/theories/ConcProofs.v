(** * ConcProofs.v — race freedom of the counter protocol, for any number of threads, every
    interleaving and every legal (possibly stale) load outcome.

    One inductive invariant [CInv] over the machine of Conc.v, preserved by every enabled label
    when [ok_cfg] holds (decrement at least Release, the load after the last decrement and the
    uniqueness test at least Acquire). *)
From Coq Require Import List Bool Arith Lia.
From TV Require Import Conc.
Import ListNotations.

(** ** lists *)
Lemma nth_nil {A} (d : A) j : nth j [] d = d.
Proof. destruct j; reflexivity. Qed.

Lemma nth_set_nth {A} (d : A) l i j x : nth j (set_nth d l i x) d = if Nat.eqb i j then x else nth j l d.
Proof.
  revert l j; induction i as [|i IH]; intros l j.
  - destruct l as [|a r]; destruct j as [|j]; simpl; auto; rewrite ?nth_nil; try reflexivity; destruct j; reflexivity.
  - destruct l as [|a r]; destruct j as [|j]; simpl; auto; rewrite IH; rewrite ?nth_nil; try reflexivity; destruct j; reflexivity.
Qed.

Definition sum_owned (l : list thread) : nat := fold_right (fun x acc => t_owned x + acc) 0 l.

Lemma sum_set_nth l i x : sum_owned (set_nth tdefault l i x) + t_owned (nth i l tdefault) = sum_owned l + t_owned x.
Proof.
  revert l; induction i as [|i IH]; intros l.
  - destruct l; simpl; lia.
  - destruct l as [|a l]; simpl.
    + specialize (IH []). simpl in IH. destruct i; simpl in *; lia.
    + specialize (IH l). lia.
Qed.

Lemma sum_owned_ge l i : t_owned (nth i l tdefault) <= sum_owned l.
Proof. revert i; induction l as [|a l IH]; intros [|i]; simpl; try lia. specialize (IH i). lia. Qed.

Lemma sum_owned_two l i j : i <> j -> t_owned (nth i l tdefault) + t_owned (nth j l tdefault) <= sum_owned l.
Proof.
  revert i j; induction l as [|a l IH]; intros [|i] [|j] H; simpl; try lia.
  - pose proof (sum_owned_ge l j). lia.
  - pose proof (sum_owned_ge l i). lia.
  - assert (i <> j) by lia. specialize (IH i j H0). lia.
Qed.

Lemma last_app_one {A} (l : list A) x d : last (l ++ [x]) d = x.
Proof. induction l as [|a l IH]; simpl; auto. destruct (l ++ [x]) eqn:E; auto. destruct l; discriminate. Qed.

Lemma nth_last {A} (l : list A) d : l <> [] -> nth (length l - 1) l d = last l d.
Proof.
  induction l as [|a l IH]; intros H; [congruence|]. destruct l as [|b l]; [reflexivity|].
  assert (IH' : nth (length (b :: l) - 1) (b :: l) d = last (b :: l) d) by (apply IH; discriminate).
  change (last (a :: b :: l) d) with (last (b :: l) d). rewrite <- IH'.
  simpl length. replace (S (S (length l)) - 1) with (S (length l)) by lia.
  replace (S (length l) - 1) with (length l) by lia. reflexivity.
Qed.

Lemma mem_in a l : mem a l = true <-> In a l.
Proof.
  unfold mem. rewrite existsb_exists. split.
  - intros (x & Hx & E). apply Nat.eqb_eq in E. subst; auto.
  - intros H. exists a. split; auto. apply Nat.eqb_refl.
Qed.

(** ** vocabulary *)
Definition T (s : cstate) (t : nat) : thread := getT s t.
Definition holder (s : cstate) (t : nat) : Prop := holds (T s t) = true.
Definition knows (s : cstate) (t a : nat) : Prop := In a (v_acc (t_view (T s t))).
Definition nacc (s : cstate) : nat := length (accs s).
Definition akind_of (s : cstate) (a : nat) : akind := a_kind (nth a (accs s) (mkA 0 ACount)).
Definition athr_of (s : cstate) (a : nat) : nat := a_thr (nth a (accs s) (mkA 0 ACount)).
Definition exclusive (k : akind) : bool := match k with AWrite | ADestroy | AMoveOut | AFree => true | _ => false end.
Definition knows_all (s : cstate) (t : nat) : Prop := forall a, a < nacc s -> knows s t a.
Definition mode_knows (m : tmode) : bool := match m with LastAcq | FreeingD | Granted | FreeingM => true | _ => false end.

Record CInv (s : cstate) : Prop := mkCInv {
  i_msgs : msgs s <> [];
  i_raced : raced s = false;
  i_count : freed s = false -> m_val (last_msg s) = sum_owned (thr s);
  i_modes : forall t, t_mode (T s t) <> Idle ->
              (forall u, u <> t -> holds (T s u) = false) /\
              match t_mode (T s t) with
              | LastNeedAcq | LastAcq | FreeingD => t_owned (T s t) = 0
              | Granted | FreeingM => t_owned (T s t) = 1
              | Idle => True
              end;
  i_known : freed s = false -> forall a, a < nacc s ->
              In a (v_acc (m_view (last_msg s))) \/ exists t, holder s t /\ knows s t a;
  i_excl : forall a, a < nacc s -> exclusive (akind_of s a) = true -> forall t, holder s t -> knows s t a;
  i_stale1 : forall i, i < lasti s -> m_val (nth i (msgs s) (mkMsg 0 vempty)) = 1 ->
              forall t, holder s t -> i < v_ts (t_view (T s t));
  i_lastts : forall t, t_mode (T s t) = LastNeedAcq -> v_ts (t_view (T s t)) = lasti s;
  i_knowall : forall t, mode_knows (t_mode (T s t)) = true -> knows_all s t;
  i_ts : forall t, v_ts (t_view (T s t)) <= lasti s;
  i_mts : forall i, v_ts (m_view (nth i (msgs s) (mkMsg 0 vempty))) <= lasti s;
  i_freed : freed s = true -> forall t, holds (T s t) = false;
  i_destr : destroyed s = true -> freed s = true \/ exists t, t_mode (T s t) = FreeingD \/ t_mode (T s t) = FreeingM;
  i_destr2 : forall t, (t_mode (T s t) = FreeingD \/ t_mode (T s t) = FreeingM) -> destroyed s = true;
  i_freed_destr : freed s = true -> destroyed s = true;
  i_live : freed s = false -> 0 < sum_owned (thr s) \/ exists t, t_mode (T s t) <> Idle }.

Lemma T_init t : T cinit t = match t with 0 => mkT 1 vempty Idle | _ => tdefault end.
Proof. unfold T, getT, cinit. simpl. destruct t as [|[|t]]; reflexivity. Qed.

Lemma cinv_init : CInv cinit.
Proof.
  constructor.
  - discriminate.
  - reflexivity.
  - reflexivity.
  - intros t H. rewrite T_init in H. destruct t; simpl in H; congruence.
  - intros _ a H. unfold nacc in H. simpl in H. lia.
  - intros a H. unfold nacc in H. simpl in H. lia.
  - intros i H. unfold lasti in H. simpl in H. lia.
  - intros t H. rewrite T_init in H. destruct t; simpl in H; discriminate.
  - intros t H. rewrite T_init in H. destruct t; simpl in H; discriminate.
  - intros t. rewrite T_init. destruct t; simpl; lia.
  - intros i. unfold lasti. simpl. destruct i as [|[|i]]; simpl; lia.
  - discriminate.
  - discriminate.
  - intros t H. rewrite T_init in H. destruct t; simpl in H; destruct H; discriminate.
  - discriminate.
  - intros _. left. simpl. lia.
Qed.

(** ** the race test *)
Lemma races_from_false i l t k v :
  (forall j a, nth_error l j = Some a -> a_thr a <> t -> conflicts k (a_kind a) = true -> In (i + j) (v_acc v)) ->
  races_from i l t k v = false.
Proof.
  revert i; induction l as [|a r IH]; intros i H; simpl; auto.
  apply orb_false_iff. split.
  - destruct (Nat.eqb_spec (a_thr a) t) as [E|NE]; simpl; auto.
    destruct (conflicts k (a_kind a)) eqn:C; simpl; auto.
    apply negb_false_iff. apply mem_in. specialize (H 0 a eq_refl NE C). rewrite Nat.add_0_r in H. exact H.
  - apply IH. intros j a' Hj NE C. specialize (H (S j) a' Hj NE C). rewrite Nat.add_succ_r in H. exact H.
Qed.

Lemma races_false s t k v :
  (forall a, a < nacc s -> athr_of s a <> t -> conflicts k (akind_of s a) = true -> In a (v_acc v)) ->
  races s t k v = false.
Proof.
  intros H. unfold races. apply races_from_false. intros j a Hj NE C. simpl.
  assert (j < nacc s) by (apply nth_error_Some; unfold nacc; congruence).
  apply H; auto; unfold athr_of, akind_of; rewrite (nth_error_nth _ _ _ Hj); auto.
Qed.

(** ** small facts *)
Lemma T_set s t x u : nth u (setT s t x) tdefault = if Nat.eqb t u then x else T s u.
Proof. unfold setT, T, getT. apply nth_set_nth. Qed.

Lemma holder_owned s t : 0 < t_owned (T s t) -> holder s t.
Proof. intros H. unfold holder, holds. apply orb_true_iff. left. apply Nat.ltb_lt; auto. Qed.
Lemma holder_mode s t : t_mode (T s t) <> Idle -> holder s t.
Proof. intros H. unfold holder, holds. apply orb_true_iff. right. destruct (t_mode (T s t)); auto; congruence. Qed.

Lemma idle_holder_others s t u :
  CInv s -> holder s t -> holder s u -> t_mode (T s t) <> Idle -> u = t.
Proof.
  intros I Ht Hu Hm. destruct (Nat.eq_dec u t); auto. exfalso.
  destruct (i_modes s I t Hm) as [H _]. specialize (H u n). unfold holder in Hu. congruence.
Qed.

Lemma not_freed_of_holder s t : CInv s -> holder s t -> freed s = false.
Proof. intros I H. destruct (freed s) eqn:F; auto. pose proof (i_freed s I F t). unfold holder in H. congruence. Qed.

Lemma lasti_app s m : msgs s <> [] -> length (msgs s ++ [m]) - 1 = S (lasti s).
Proof. intros H. unfold lasti. rewrite app_length. simpl. destruct (msgs s); [congruence|simpl; lia]. Qed.

Lemma length_msgs s : msgs s <> [] -> length (msgs s) = S (lasti s).
Proof. intros H. unfold lasti. destruct (msgs s); [congruence|simpl; lia]. Qed.

Lemma nth_lasti s : msgs s <> [] -> nth (lasti s) (msgs s) (mkMsg 0 vempty) = last_msg s.
Proof. intros H. unfold lasti, last_msg. apply nth_last; auto. Qed.

(** ** facts about a state extended by one access *)
Section OneAccess.
Variables (s : cstate) (t : nat) (k : akind).
Let acc' := accs s ++ [mkA t k].

Lemma nth_acc_old a : a < nacc s -> nth a acc' (mkA 0 ACount) = nth a (accs s) (mkA 0 ACount).
Proof. intros H. unfold acc'. apply app_nth1. exact H. Qed.
Lemma nth_acc_new : nth (nacc s) acc' (mkA 0 ACount) = mkA t k.
Proof. unfold acc', nacc. rewrite app_nth2 by lia. rewrite Nat.sub_diag. reflexivity. Qed.
Lemma len_acc' : length acc' = S (nacc s).
Proof. unfold acc', nacc. rewrite app_length. simpl. lia. Qed.
End OneAccess.

(** a step that logs one access by [t], replaces [t]'s record (same number of handles) and adds no message *)
Lemma single_step_inv s t k o' v' m' d' :
  CInv s -> holder s t -> o' = t_owned (T s t) ->
  (forall a, In a (v_acc (t_view (T s t))) -> In a (v_acc v')) ->
  In (nacc s) (v_acc v') ->
  v_ts (t_view (T s t)) <= v_ts v' -> v_ts v' <= lasti s ->
  (forall a, a < nacc s -> athr_of s a <> t -> conflicts k (akind_of s a) = true -> knows s t a) ->
  (m' <> Idle -> (forall u, u <> t -> holds (T s u) = false) /\
                 match m' with LastNeedAcq | LastAcq | FreeingD => o' = 0 | Granted | FreeingM => o' = 1 | Idle => True end) ->
  holds (mkT o' v' m') = true ->
  m' <> LastNeedAcq ->
  (mode_knows m' = true -> forall a, a < nacc s -> In a (v_acc v')) ->
  (exclusive k = true -> forall u, u <> t -> holds (T s u) = false) ->
  t_mode (T s t) <> FreeingD -> t_mode (T s t) <> FreeingM ->
  (d' = true <-> (destroyed s = true \/ m' = FreeingD \/ m' = FreeingM)) ->
  CInv (mkC (msgs s) (accs s ++ [mkA t k]) (setT s t (mkT o' v' m')) d' (freed s)
            (raced s || (races s t k (t_view (T s t)) || freed s))).
Proof.
  intros I Ht Ho V1 V2 V3a V3b R M1 M2 M3 K E D0a D0b D1.
  pose proof (not_freed_of_holder s t I Ht) as F.
  set (s' := mkC _ _ _ _ _ _).
  assert (HT : forall u, T s' u = if Nat.eqb t u then mkT o' v' m' else T s u).
  { intros u. unfold T at 1, getT. simpl. apply T_set. }
  assert (HTt : T s' t = mkT o' v' m') by (rewrite HT, Nat.eqb_refl; auto).
  assert (HTu : forall u, u <> t -> T s' u = T s u).
  { intros u Hu. rewrite HT. destruct (Nat.eqb_spec t u); congruence. }
  assert (Hn : nacc s' = S (nacc s)) by (unfold nacc; simpl; apply len_acc').
  assert (Hkold : forall a, a < nacc s -> akind_of s' a = akind_of s a).
  { intros a Ha. unfold akind_of. simpl. rewrite nth_acc_old; auto. }
  assert (Hknew : akind_of s' (nacc s) = k) by (unfold akind_of; simpl; rewrite nth_acc_new; auto).
  assert (Hknows : forall u a, knows s u a -> knows s' u a).
  { intros u a H. unfold knows in *. destruct (Nat.eq_dec u t) as [->|Hu]; [rewrite HTt; simpl; apply V1; auto|rewrite HTu; auto]. }
  assert (Hhold : forall u, holder s' u -> holder s u).
  { intros u H. destruct (Nat.eq_dec u t) as [->|Hu]; auto. unfold holder in *. rewrite HTu in H; auto. }
  assert (Hhold' : forall u, holder s u -> holder s' u).
  { intros u H. destruct (Nat.eq_dec u t) as [->|Hu]; unfold holder in *; [rewrite HTt; auto|rewrite HTu; auto]. }
  assert (Hother : forall u, u <> t -> t_mode (T s u) = Idle).
  { intros u Hu. destruct (t_mode (T s u)) eqn:Em; auto; exfalso;
      (assert (Hm : t_mode (T s u) <> Idle) by congruence; destruct (i_modes s I u Hm) as [Hx _];
       specialize (Hx t (fun e => Hu (eq_sym e))); unfold holder in Ht; congruence). }
  assert (Hnd : destroyed s = false).
  { destruct (destroyed s) eqn:Ed; auto. exfalso. destruct (i_destr s I Ed) as [Hf|[u Hu]]; [congruence|].
    destruct (Nat.eq_dec u t) as [->|Hne]; [destruct Hu; congruence|]. rewrite (Hother u Hne) in Hu. destruct Hu; discriminate. }
  constructor; simpl.
  - apply (i_msgs s I).
  - rewrite (i_raced s I), F. simpl. rewrite orb_false_r. apply races_false. intros a Ha Hth Hc. apply (R a Ha Hth Hc).
  - intros _. unfold last_msg. simpl. fold (last_msg s). rewrite (i_count s I F).
    pose proof (sum_set_nth (thr s) t (mkT o' v' m')) as S1. simpl in S1. unfold setT.
    unfold T, getT in Ho. lia.
  - intros u Hm. destruct (Nat.eq_dec u t) as [->|Hu].
    + rewrite HTt in *. simpl in *. destruct (M1 Hm) as [A B]. split.
      * intros w Hw. rewrite HTu; auto.
      * exact B.
    + rewrite HTu in Hm by auto. rewrite Hother in Hm by auto. congruence.
  - intros _ a Ha. fold (nacc s') in Ha. rewrite Hn in Ha. unfold last_msg. simpl.
    destruct (Nat.eq_dec a (nacc s)) as [->|Hne].
    + right. exists t. split; [apply Hhold'; auto|]. unfold knows. rewrite HTt. simpl. exact V2.
    + assert (Ha' : a < nacc s) by lia. destruct (i_known s I F a Ha') as [H|[u [Hu1 Hu2]]]; [left; exact H|].
      right. exists u. split; [apply Hhold'; auto|apply Hknows; auto].
  - intros a Ha Hex u Hu. fold (nacc s') in Ha. rewrite Hn in Ha.
    destruct (Nat.eq_dec a (nacc s)) as [->|Hne].
    + rewrite Hknew in Hex. destruct (Nat.eq_dec u t) as [->|Hut]; [unfold knows; rewrite HTt; simpl; exact V2|].
      exfalso. specialize (E Hex u Hut). apply Hhold in Hu. unfold holder in Hu. congruence.
    + assert (Ha' : a < nacc s) by lia. rewrite Hkold in Hex by auto. apply Hknows. apply (i_excl s I a Ha' Hex u). apply Hhold; auto.
  - intros i Hi Hv u Hu. unfold lasti in Hi. simpl in Hi. fold (lasti s) in Hi.
    pose proof (i_stale1 s I i Hi Hv u (Hhold u Hu)) as H.
    destruct (Nat.eq_dec u t) as [->|Hut]; [rewrite HTt; simpl; lia|rewrite HTu; auto].
  - intros u Hm. unfold lasti. simpl. fold (lasti s). destruct (Nat.eq_dec u t) as [->|Hut].
    + rewrite HTt in Hm. simpl in Hm. congruence.
    + rewrite HTu in * by auto. apply (i_lastts s I u Hm).
  - intros u Hm a Ha. rewrite Hn in Ha. destruct (Nat.eq_dec u t) as [->|Hut].
    + unfold knows. rewrite HTt in *. simpl in *. destruct (Nat.eq_dec a (nacc s)) as [->|Hne]; [exact V2|]. apply K; auto. lia.
    + rewrite HTu in Hm by auto. rewrite Hother in Hm by auto. discriminate.
  - intros u. unfold lasti. simpl. fold (lasti s). destruct (Nat.eq_dec u t) as [->|Hut]; [rewrite HTt; simpl; lia|rewrite HTu; auto; apply (i_ts s I)].
  - intros i. unfold lasti. simpl. fold (lasti s). apply (i_mts s I).
  - congruence.
  - intros Hd. right. apply D1 in Hd. destruct Hd as [Hd|Hd]; [congruence|]. exists t. rewrite HTt. simpl. exact Hd.
  - intros u Hu. apply D1. destruct (Nat.eq_dec u t) as [->|Hut].
    + rewrite HTt in Hu. simpl in Hu. auto.
    + rewrite HTu in Hu by auto. rewrite Hother in Hu by auto. destruct Hu; discriminate.
  - congruence.
  - intros _. unfold holds in M2. simpl in M2. apply orb_true_iff in M2. destruct M2 as [M2|M2].
    + left. apply Nat.ltb_lt in M2.
      pose proof (sum_set_nth (thr s) t (mkT o' v' m')) as S1. simpl in S1. unfold setT.
      pose proof (sum_owned_ge (thr s) t). lia.
    + right. exists t. rewrite HTt. simpl. destruct m'; simpl in M2; congruence.
Qed.

(** ** per-label preservation *)
Lemma vadd_in v a x : In x (v_acc v) -> In x (v_acc (vadd v a)).
Proof. simpl. auto. Qed.
Lemma vjoin_in_l a b x : In x (v_acc a) -> In x (v_acc (vjoin a b)).
Proof. simpl. intros. apply in_or_app. auto. Qed.
Lemma vjoin_in_r a b x : In x (v_acc b) -> In x (v_acc (vjoin a b)).
Proof. simpl. intros. apply in_or_app. auto. Qed.

Lemma holds_cases x : holds x = true -> 0 < t_owned x \/ t_mode x <> Idle.
Proof.
  unfold holds. intros H. apply orb_true_iff in H. destruct H as [H|H]; [left; apply Nat.ltb_lt; auto|].
  right. destruct (t_mode x); simpl in H; congruence.
Qed.

(** a conflicting access by another thread is always already known, for the kinds a plain holder may do *)
Lemma known_nonexclusive s t k :
  CInv s -> holder s t -> (k = ARead \/ k = ACount) ->
  forall a, a < nacc s -> athr_of s a <> t -> conflicts k (akind_of s a) = true -> knows s t a.
Proof.
  intros I Ht Hk a Ha _ Hc. apply (i_excl s I a Ha); auto.
  destruct Hk as [-> | ->]; destruct (akind_of s a); simpl in *; auto; discriminate.
Qed.

Section Labels.
Variable c : cfg.
Hypothesis OK : ok_cfg c = true.

Lemma ok_dec : dec_release c = true.
Proof. unfold ok_cfg in OK. apply andb_true_iff in OK. destruct OK as [H _]. apply andb_true_iff in H. tauto. Qed.
Lemma ok_acq : acq_acquire c = true.
Proof. unfold ok_cfg in OK. apply andb_true_iff in OK. destruct OK as [H _]. apply andb_true_iff in H. tauto. Qed.
Lemma ok_uniq : uniq_acquire c = true.
Proof. unfold ok_cfg in OK. apply andb_true_iff in OK. tauto. Qed.

Lemma step_read s t s' : CInv s -> cstep c s (LRead t) = Some s' -> CInv s'.
Proof.
  intros I H. simpl in H. fold (T s t) in H.
  destruct ((0 <? t_owned (T s t)) && (is_idle (t_mode (T s t)) || is_granted (t_mode (T s t)))) eqn:G; [|discriminate].
  apply andb_true_iff in G. destruct G as [G1 G2]. apply Nat.ltb_lt in G1.
  unfold do_access in H. fold (T s t) in H. inversion H; subst s'; clear H.
  assert (Ht : holder s t) by (apply holder_owned; auto).
  apply (single_step_inv s t ARead (t_owned (T s t)) (vadd (t_view (T s t)) (length (accs s))) (t_mode (T s t)) (destroyed s));
    [ exact I | exact Ht | reflexivity
    | intros a Ha; simpl; auto
    | simpl; auto
    | simpl; lia
    | apply (i_ts s I)
    | apply known_nonexclusive; auto
    | intros Hm; destruct (i_modes s I t Hm) as [A B]; split; [exact A|destruct (t_mode (T s t)); auto]
    | unfold holds; simpl; apply orb_true_iff; left; apply Nat.ltb_lt; auto
    | intros E; rewrite E in G2; discriminate
    | intros Hm a Ha; simpl; right; apply (i_knowall s I t Hm a Ha)
    | discriminate
    | intros E; rewrite E in G2; discriminate
    | intros E; rewrite E in G2; discriminate
    | split; [auto|intros [H|[H|H]]; auto; rewrite H in G2; discriminate] ].
Qed.

Lemma step_strong s t i s' : CInv s -> cstep c s (LStrong t i) = Some s' -> CInv s'.
Proof.
  intros I H. simpl in H. fold (T s t) in H.
  destruct ((0 <? t_owned (T s t)) && is_idle (t_mode (T s t)) && (v_ts (t_view (T s t)) <=? i) && (i <? length (msgs s))) eqn:G; [|discriminate].
  repeat (apply andb_true_iff in G; destruct G as [G ?]). apply Nat.ltb_lt in G. apply Nat.leb_le in H1. apply Nat.ltb_lt in H0.
  assert (Hm : t_mode (T s t) = Idle) by (destruct (t_mode (T s t)); simpl in *; congruence).
  unfold do_access in H. fold (T s t) in H. inversion H; subst s'; clear H.
  assert (Ht : holder s t) by (apply holder_owned; auto).
  pose proof (length_msgs s (i_msgs s I)) as Lm.
  apply (single_step_inv s t ACount (t_owned (T s t)) (vts (vadd (t_view (T s t)) (length (accs s))) i) Idle (destroyed s));
    [ exact I | exact Ht | reflexivity
    | intros a Ha; simpl; auto
    | simpl; auto
    | simpl; lia
    | simpl; pose proof (i_ts s I t); lia
    | apply known_nonexclusive; auto
    | congruence
    | unfold holds; simpl; apply orb_true_iff; left; apply Nat.ltb_lt; auto
    | discriminate
    | discriminate
    | discriminate
    | congruence
    | congruence
    | split; [auto|intros [H|[H|H]]; auto; discriminate] ].
Qed.

(** exclusive access by the thread that holds the only handle and knows every earlier access *)
Lemma step_exclusive s t k m' d' :
  CInv s -> t_mode (T s t) = Granted \/ t_mode (T s t) = LastAcq ->
  (t_mode (T s t) = Granted -> m' = Granted \/ m' = FreeingM) ->
  (t_mode (T s t) = LastAcq -> m' = FreeingD) ->
  (d' = true <-> (destroyed s = true \/ m' = FreeingD \/ m' = FreeingM)) ->
  CInv (mkC (msgs s) (accs s ++ [mkA t k]) (setT s t (mkT (t_owned (T s t)) (vadd (t_view (T s t)) (length (accs s))) m')) d' (freed s)
            (raced s || (races s t k (t_view (T s t)) || freed s))).
Proof.
  intros I Hm M1 M2 D.
  assert (Hne : t_mode (T s t) <> Idle) by (destruct Hm as [E|E]; rewrite E; discriminate).
  assert (Ht : holder s t) by (apply holder_mode; auto).
  destruct (i_modes s I t Hne) as [A B].
  assert (KA : knows_all s t) by (apply (i_knowall s I t); destruct Hm as [E|E]; rewrite E; reflexivity).
  apply (single_step_inv s t k (t_owned (T s t)) (vadd (t_view (T s t)) (length (accs s))) m' d');
    [ exact I | exact Ht | reflexivity
    | intros a Ha; simpl; auto
    | simpl; auto
    | simpl; lia
    | apply (i_ts s I)
    | intros a Ha _ _; apply KA; auto
    | intros _; split; [exact A|]; destruct Hm as [E|E]; rewrite E in B;
        [destruct (M1 E) as [-> | ->]; exact B | rewrite (M2 E); exact B]
    | unfold holds; simpl; apply orb_true_iff; right; destruct Hm as [E|E]; [destruct (M1 E) as [-> | ->]|rewrite (M2 E)]; reflexivity
    | destruct Hm as [E|E]; [destruct (M1 E) as [-> | ->]|rewrite (M2 E)]; discriminate
    | intros _ a Ha; simpl; right; apply KA; auto
    | intros _; exact A
    | destruct Hm as [E|E]; rewrite E; discriminate
    | destruct Hm as [E|E]; rewrite E; discriminate
    | exact D ].
Qed.

Lemma not_destroyed_yet s t : CInv s -> t_mode (T s t) = Granted \/ t_mode (T s t) = LastAcq -> destroyed s = false.
Proof.
  intros I Hm. destruct (destroyed s) eqn:Ed; auto. exfalso.
  assert (Hne : t_mode (T s t) <> Idle) by (destruct Hm as [E|E]; rewrite E; discriminate).
  assert (Ht : holder s t) by (apply holder_mode; auto).
  destruct (i_destr s I Ed) as [Hf|[u Hu]].
  - pose proof (i_freed s I Hf t). unfold holder in Ht. congruence.
  - assert (Hu' : t_mode (T s u) <> Idle) by (destruct Hu as [E|E]; rewrite E; discriminate).
    assert (u = t) by (apply (idle_holder_others s t u I); auto; apply holder_mode; auto).
    subst u. destruct Hm as [E|E]; rewrite E in Hu; destruct Hu; discriminate.
Qed.

Lemma step_write s t s' : CInv s -> cstep c s (LWrite t) = Some s' -> CInv s'.
Proof.
  intros I H. simpl in H. fold (T s t) in H.
  destruct (t_mode (T s t)) eqn:Hm; try discriminate.
  unfold do_access in H. fold (T s t) in H. inversion H; subst s'; clear H.
  apply (step_exclusive s t AWrite Granted (destroyed s) I); [left; exact Hm|auto|congruence|].
  split; [auto|intros [H|[H|H]]; auto; discriminate].
Qed.

Lemma step_moveout s t s' : CInv s -> cstep c s (LMoveOut t) = Some s' -> CInv s'.
Proof.
  intros I H. simpl in H. fold (T s t) in H.
  destruct (t_mode (T s t)) eqn:Hm; try discriminate.
  unfold do_access in H. fold (T s t) in H. inversion H; subst s'; clear H.
  rewrite (not_destroyed_yet s t I (or_introl Hm)), orb_false_r.
  apply (step_exclusive s t AMoveOut FreeingM true I); [left; exact Hm|auto|congruence|].
  split; auto.
Qed.

Lemma step_destroy s t s' : CInv s -> cstep c s (LDestroy t) = Some s' -> CInv s'.
Proof.
  intros I H. simpl in H. fold (T s t) in H.
  destruct (t_mode (T s t)) eqn:Hm; try discriminate.
  unfold do_access in H. fold (T s t) in H. inversion H; subst s'; clear H.
  rewrite (not_destroyed_yet s t I (or_intror Hm)), orb_false_r.
  apply (step_exclusive s t ADestroy FreeingD true I); [right; exact Hm|congruence|auto|].
  split; auto.
Qed.

(** the acquire load after the last decrement can only read the last message, and then knows everything *)
Lemma step_acq s t i s' : CInv s -> cstep c s (LAcq t i) = Some s' -> CInv s'.
Proof.
  intros I H. simpl in H. fold (T s t) in H.
  destruct (t_mode (T s t)) eqn:Hm; try discriminate.
  destruct ((v_ts (t_view (T s t)) <=? i) && (i <? length (msgs s))) eqn:G; [|discriminate].
  apply andb_true_iff in G. destruct G as [G1 G2]. apply Nat.leb_le in G1. apply Nat.ltb_lt in G2.
  unfold do_access in H. fold (T s t) in H. rewrite ok_acq in H. inversion H; subst s'; clear H.
  assert (Hne : t_mode (T s t) <> Idle) by congruence.
  assert (Ht : holder s t) by (apply holder_mode; auto).
  destruct (i_modes s I t Hne) as [A B]. rewrite Hm in B.
  pose proof (length_msgs s (i_msgs s I)) as Lm.
  pose proof (i_lastts s I t Hm) as Lt.
  assert (Hi : i = lasti s) by lia. subst i. rewrite nth_lasti by (apply (i_msgs s I)).
  pose proof (not_freed_of_holder s t I Ht) as F.
  apply (single_step_inv s t ACount (t_owned (T s t))
           (vts (vjoin (vadd (t_view (T s t)) (length (accs s))) (m_view (last_msg s))) (lasti s)) LastAcq (destroyed s));
    [ exact I | exact Ht | reflexivity
    | intros a Ha; simpl; right; apply in_or_app; left; exact Ha
    | simpl; left; reflexivity
    | simpl; lia
    | simpl; pose proof (i_mts s I (lasti s)) as Q; rewrite nth_lasti in Q by (apply (i_msgs s I)); lia
    | apply known_nonexclusive; auto
    | intros _; split; [exact A|exact B]
    | unfold holds; simpl; apply orb_true_iff; right; reflexivity
    | discriminate
    | | discriminate | congruence | congruence
    | split; [auto|intros [H|[H|H]]; auto; discriminate] ].
  intros _ a Ha. simpl. right. apply in_or_app.
  destruct (i_known s I F a Ha) as [K|[u [Hu1 Hu2]]]; [right; exact K|].
  assert (u = t) by (apply (idle_holder_others s t u I); auto). subst u. left. exact Hu2.
Qed.

(** a uniqueness test that answers "unique" read the last message, its caller is the sole owner and now
    knows every earlier access *)
Lemma uniq_reads_last s t i :
  CInv s -> holder s t -> v_ts (t_view (T s t)) <= i -> i < length (msgs s) ->
  m_val (nth i (msgs s) (mkMsg 0 vempty)) = 1 -> i = lasti s.
Proof.
  intros I Ht H1 H2 Hv. pose proof (length_msgs s (i_msgs s I)) as Lm.
  destruct (Nat.eq_dec i (lasti s)); auto. exfalso.
  assert (Hlt : i < lasti s) by lia. pose proof (i_stale1 s I i Hlt Hv t Ht). lia.
Qed.

Lemma sole_owner s t u :
  CInv s -> freed s = false -> 0 < t_owned (T s t) -> m_val (last_msg s) = 1 -> u <> t -> holds (T s u) = false.
Proof.
  intros I F G Hv Hu. rewrite (i_count s I F) in Hv.
  destruct (holds (T s u)) eqn:Hh; auto. exfalso.
  destruct (holds_cases _ Hh) as [Ho|Hmo].
  - pose proof (sum_owned_two (thr s) t u (fun e => Hu (eq_sym e))) as S2. unfold T, getT in *. lia.
  - destruct (i_modes s I u Hmo) as [Z _]. specialize (Z t (fun e => Hu (eq_sym e))).
    pose proof (holder_owned s t G) as Ht. unfold holder in Ht. congruence.
Qed.

Lemma step_uniq s t i s' : CInv s -> cstep c s (LUniq t i) = Some s' -> CInv s'.
Proof.
  intros I H. simpl in H. fold (T s t) in H.
  destruct ((0 <? t_owned (T s t)) && is_idle (t_mode (T s t)) && (v_ts (t_view (T s t)) <=? i) && (i <? length (msgs s))) eqn:G; [|discriminate].
  repeat (apply andb_true_iff in G; destruct G as [G ?]). apply Nat.ltb_lt in G. apply Nat.leb_le in H1. apply Nat.ltb_lt in H0.
  assert (Hm : t_mode (T s t) = Idle) by (destruct (t_mode (T s t)); simpl in *; congruence).
  unfold do_access in H. fold (T s t) in H. rewrite ok_uniq in H. inversion H; subst s'; clear H.
  assert (Ht : holder s t) by (apply holder_owned; auto).
  pose proof (length_msgs s (i_msgs s I)) as Lm.
  pose proof (not_freed_of_holder s t I Ht) as F.
  set (m := nth i (msgs s) (mkMsg 0 vempty)).
  assert (Hbase : forall m', (m' = Idle \/ (m' = Granted /\ m_val m = 1)) ->
     CInv (mkC (msgs s) (accs s ++ [mkA t ACount])
               (setT s t (mkT (t_owned (T s t)) (vts (vjoin (vadd (t_view (T s t)) (length (accs s))) (m_view m)) i) m'))
               (destroyed s) (freed s) (raced s || (races s t ACount (t_view (T s t)) || freed s)))).
  { intros m' Hm'.
    apply (single_step_inv s t ACount (t_owned (T s t))
             (vts (vjoin (vadd (t_view (T s t)) (length (accs s))) (m_view m)) i) m' (destroyed s));
      [ exact I | exact Ht | reflexivity
      | intros a Ha; simpl; right; apply in_or_app; left; exact Ha
      | simpl; left; reflexivity
      | simpl; lia
      | simpl; pose proof (i_mts s I i) as Q; fold m in Q; pose proof (i_ts s I t); lia
      | apply known_nonexclusive; auto
      | | unfold holds; simpl; apply orb_true_iff; left; apply Nat.ltb_lt; auto
      | destruct Hm' as [->|[-> _]]; discriminate
      | | discriminate | congruence | congruence
      | split; [auto|intros [H|[H|H]]; auto; destruct Hm' as [->|[-> _]]; discriminate] ].
    - intros Hne. destruct Hm' as [->|[-> Hv]]; [congruence|].
      assert (Hi : i = lasti s) by (apply (uniq_reads_last s t i I Ht); auto). subst i.
      unfold m in Hv. rewrite nth_lasti in Hv by (apply (i_msgs s I)).
      split; [intros u Hu; apply (sole_owner s t u I F G Hv Hu)|].
      rewrite (i_count s I F) in Hv. pose proof (sum_owned_ge (thr s) t). unfold T, getT in *. lia.
    - intros Hk a Ha. destruct Hm' as [->|[-> Hv]]; [discriminate|].
      assert (Hi : i = lasti s) by (apply (uniq_reads_last s t i I Ht); auto). subst i.
      unfold m in *. rewrite nth_lasti in * by (apply (i_msgs s I)).
      simpl. right. apply in_or_app.
      destruct (i_known s I F a Ha) as [K|[u [Hu1 Hu2]]]; [right; exact K|].
      destruct (Nat.eq_dec u t) as [->|Hne]; [left; exact Hu2|]. exfalso.
      pose proof (sole_owner s t u I F G Hv Hne). unfold holder in Hu1. congruence. }
  fold m. destruct (Nat.eqb_spec (m_val m) 1) as [E|NE]; apply Hbase; auto.
Qed.
End Labels.

(** ** steps that add no access and no message *)

(** only views grow (extra synchronisation) *)
Lemma views_grow_inv s thr' :
  CInv s ->
  (forall u, t_owned (nth u thr' tdefault) = t_owned (T s u) /\ t_mode (nth u thr' tdefault) = t_mode (T s u) /\
             (forall a, In a (v_acc (t_view (T s u))) -> In a (v_acc (t_view (nth u thr' tdefault)))) /\
             v_ts (t_view (T s u)) <= v_ts (t_view (nth u thr' tdefault)) /\ v_ts (t_view (nth u thr' tdefault)) <= lasti s) ->
  sum_owned thr' = sum_owned (thr s) ->
  CInv (mkC (msgs s) (accs s) thr' (destroyed s) (freed s) (raced s)).
Proof.
  intros I H Hsum. set (s' := mkC _ _ _ _ _ _).
  assert (HT : forall u, T s' u = nth u thr' tdefault) by reflexivity.
  assert (Hh : forall u, holds (T s' u) = holds (T s u)).
  { intros u. rewrite HT. destruct (H u) as (A & B & _). unfold holds. rewrite A, B. reflexivity. }
  assert (Hk : forall u a, knows s u a -> knows s' u a).
  { intros u a K. unfold knows in *. rewrite HT. destruct (H u) as (_ & _ & C & _). auto. }
  constructor; simpl.
  - apply (i_msgs s I).
  - apply (i_raced s I).
  - intros F. rewrite Hsum. apply (i_count s I F).
  - intros u Hm. rewrite HT in *. destruct (H u) as (A & B & _). rewrite B in Hm. destruct (i_modes s I u Hm) as [X Y].
    split; [intros w Hw; rewrite Hh; auto|]. rewrite A, B. exact Y.
  - intros F a Ha. destruct (i_known s I F a Ha) as [K|[u [Hu1 Hu2]]]; [left; exact K|].
    right. exists u. split; [unfold holder; rewrite Hh; exact Hu1|apply Hk; exact Hu2].
  - intros a Ha He u Hu. apply Hk. apply (i_excl s I a Ha He u). unfold holder in *. rewrite Hh in Hu. exact Hu.
  - intros i Hi Hv u Hu. unfold holder in Hu. rewrite Hh in Hu. pose proof (i_stale1 s I i Hi Hv u Hu).
    rewrite HT. destruct (H u) as (_ & _ & _ & D & _). lia.
  - intros u Hm. rewrite HT in *. destruct (H u) as (_ & B & _ & D & E). rewrite B in Hm.
    pose proof (i_lastts s I u Hm). unfold lasti in *. simpl. lia.
  - intros u Hm a Ha. rewrite HT in Hm. destruct (H u) as (_ & B & _). rewrite B in Hm. apply Hk. apply (i_knowall s I u Hm a Ha).
  - intros u. rewrite HT. destruct (H u) as (_ & _ & _ & _ & E). exact E.
  - apply (i_mts s I).
  - intros F u. rewrite Hh. apply (i_freed s I F u).
  - intros Hd. destruct (i_destr s I Hd) as [F|[u Hu]]; [left; exact F|]. right. exists u. rewrite HT. destruct (H u) as (_ & B & _). rewrite B. exact Hu.
  - intros u Hu. rewrite HT in Hu. destruct (H u) as (_ & B & _). rewrite B in Hu. apply (i_destr2 s I u Hu).
  - apply (i_freed_destr s I).
  - intros F. rewrite Hsum. destruct (i_live s I F) as [L|[u Hu]]; [left; exact L|]. right. exists u. rewrite HT. destruct (H u) as (_ & B & _). rewrite B. exact Hu.
Qed.

Lemma step_sync c s t u s' : CInv s -> cstep c s (LSync t u) = Some s' -> CInv s'.
Proof.
  intros I H. simpl in H. destruct (negb (Nat.eqb t u)) eqn:E; [|discriminate]. inversion H; subst s'; clear H.
  apply negb_true_iff in E. apply Nat.eqb_neq in E.
  apply views_grow_inv; auto.
  - intros w. rewrite T_set. destruct (Nat.eqb_spec u w) as [<-|Hne].
    + simpl. fold (T s u). fold (T s t). split; auto. split; auto. split; [intros a Ha; apply in_or_app; auto|].
      pose proof (i_ts s I u). pose proof (i_ts s I t). lia.
    + split; auto. split; auto. split; auto. pose proof (i_ts s I w). lia.
  - pose proof (sum_set_nth (thr s) u (mkT (t_owned (getT s u)) (vjoin (t_view (getT s u)) (t_view (getT s t))) (t_mode (getT s u)))) as S1.
    simpl in S1. unfold setT. unfold getT in *. lia.
Qed.

Lemma step_ungrant c s t s' : CInv s -> cstep c s (LUngrant t) = Some s' -> CInv s'.
Proof.
  intros I H. simpl in H. fold (T s t) in H. destruct (t_mode (T s t)) eqn:Hm; try discriminate. inversion H; subst s'; clear H.
  assert (Hne : t_mode (T s t) <> Idle) by congruence.
  assert (Ht : holder s t) by (apply holder_mode; auto).
  destruct (i_modes s I t Hne) as [A B]. rewrite Hm in B.
  pose proof (not_freed_of_holder s t I Ht) as F.
  set (s' := mkC _ _ _ _ _ _).
  assert (HTt : T s' t = mkT (t_owned (T s t)) (t_view (T s t)) Idle) by (unfold T at 1, getT; simpl; rewrite T_set, Nat.eqb_refl; auto).
  assert (HTu : forall u, u <> t -> T s' u = T s u).
  { intros u Hu. unfold T at 1, getT. simpl. rewrite T_set. destruct (Nat.eqb_spec t u); [congruence|reflexivity]. }
  assert (Hother : forall u, u <> t -> holds (T s' u) = false) by (intros u Hu; rewrite HTu; auto).
  assert (Hk : forall u a, knows s u a <-> knows s' u a).
  { intros u a. unfold knows. destruct (Nat.eq_dec u t) as [->|Hu]; [rewrite HTt; simpl; tauto|rewrite HTu; tauto]. }
  assert (Hht : holder s' t). { unfold holder. rewrite HTt. unfold holds. simpl. rewrite B. reflexivity. }
  assert (Hhold : forall u, holder s' u -> u = t).
  { intros u Hu. destruct (Nat.eq_dec u t); auto. unfold holder in Hu. rewrite Hother in Hu; auto. discriminate. }
  assert (Hsum : sum_owned (thr s') = sum_owned (thr s)).
  { simpl. pose proof (sum_set_nth (thr s) t (mkT (t_owned (T s t)) (t_view (T s t)) Idle)) as S1. simpl in S1. unfold setT. unfold T, getT in *. lia. }
  constructor.
  - apply (i_msgs s I).
  - apply (i_raced s I).
  - intros _. rewrite Hsum. apply (i_count s I F).
  - intros u Hu. destruct (Nat.eq_dec u t) as [->|Hne']; [rewrite HTt in Hu; simpl in Hu; congruence|].
    rewrite HTu in Hu by auto. exfalso. specialize (A u Hne'). pose proof (holder_mode s u Hu). unfold holder in H. congruence.
  - intros _ a Ha. destruct (i_known s I F a Ha) as [K|[u [Hu1 Hu2]]]; [left; exact K|].
    right. assert (u = t). { destruct (Nat.eq_dec u t); auto. specialize (A u n). unfold holder in Hu1. congruence. }
    subst u. exists t. split; auto. apply Hk; auto.
  - intros a Ha He u Hu. rewrite (Hhold u Hu). apply Hk. apply (i_excl s I a Ha He t Ht).
  - intros i Hi Hv u Hu. rewrite (Hhold u Hu). rewrite HTt. simpl. apply (i_stale1 s I i Hi Hv t Ht).
  - intros u Hu. destruct (Nat.eq_dec u t) as [->|Hne']; [rewrite HTt in Hu; simpl in Hu; discriminate|].
    rewrite HTu in * by auto. apply (i_lastts s I u Hu).
  - intros u Hu. destruct (Nat.eq_dec u t) as [->|Hne']; [rewrite HTt in Hu; simpl in Hu; discriminate|].
    rewrite HTu in Hu by auto. intros a Ha. apply Hk. apply (i_knowall s I u Hu a Ha).
  - intros u. destruct (Nat.eq_dec u t) as [->|Hne']; [rewrite HTt; simpl|rewrite HTu by auto]; apply (i_ts s I).
  - apply (i_mts s I).
  - simpl. congruence.
  - intros Hd. exfalso. simpl in Hd. rewrite (not_destroyed_yet s t I (or_introl Hm)) in Hd. discriminate.
  - intros u Hu. exfalso. destruct (Nat.eq_dec u t) as [->|Hne']; [rewrite HTt in Hu; simpl in Hu; destruct Hu; discriminate|].
    rewrite HTu in Hu by auto. assert (Hmu : t_mode (T s u) <> Idle) by (destruct Hu as [E|E]; rewrite E; discriminate).
    specialize (A u Hne'). pose proof (holder_mode s u Hmu). unfold holder in H. congruence.
  - simpl. congruence.
  - intros _. left. rewrite Hsum. pose proof (sum_owned_ge (thr s) t). unfold T, getT in *. lia.
Qed.

Lemma nth_app_msgs s m i : i < length (msgs s) -> nth i (msgs s ++ [m]) (mkMsg 0 vempty) = nth i (msgs s) (mkMsg 0 vempty).
Proof. intros H. apply app_nth1; auto. Qed.

Lemma idle_everywhere s t : CInv s -> holder s t -> t_mode (T s t) = Idle -> forall u, t_mode (T s u) = Idle.
Proof.
  intros I Ht Hm u. destruct (Nat.eq_dec u t) as [->|Hu]; auto.
  destruct (t_mode (T s u)) eqn:E; auto; exfalso;
    (assert (Hne : t_mode (T s u) <> Idle) by congruence; destruct (i_modes s I u Hne) as [X _];
     specialize (X t (fun e => Hu (eq_sym e))); unfold holder in Ht; congruence).
Qed.

Lemma not_destroyed_idle s t : CInv s -> holder s t -> t_mode (T s t) = Idle -> destroyed s = false.
Proof.
  intros I Ht Hm. destruct (destroyed s) eqn:Ed; auto. exfalso. destruct (i_destr s I Ed) as [F|[u Hu]].
  - pose proof (i_freed s I F t). unfold holder in Ht. congruence.
  - rewrite (idle_everywhere s t I Ht Hm u) in Hu. destruct Hu; discriminate.
Qed.

Section Labels2.
Variable c : cfg.
Hypothesis OK : ok_cfg c = true.

Lemma step_free s t s' : CInv s -> cstep c s (LFree t) = Some s' -> CInv s'.
Proof.
  intros I H. simpl in H. fold (T s t) in H.
  assert (Hm : t_mode (T s t) = FreeingD \/ t_mode (T s t) = FreeingM) by (destruct (t_mode (T s t)); try discriminate; auto).
  assert (H' : s' = mkC (msgs s) (accs s ++ [mkA t AFree]) (setT s t (mkT 0 (vadd (t_view (T s t)) (length (accs s))) Idle))
                        (destroyed s) true (raced s || (races s t AFree (t_view (T s t)) || freed s) || freed s)).
  { destruct Hm as [E|E]; rewrite E in H; unfold do_access in H; fold (T s t) in H; inversion H; reflexivity. }
  subst s'. clear H.
  assert (Hne : t_mode (T s t) <> Idle) by (destruct Hm as [E|E]; rewrite E; discriminate).
  assert (Ht : holder s t) by (apply holder_mode; auto).
  destruct (i_modes s I t Hne) as [A B].
  pose proof (not_freed_of_holder s t I Ht) as F.
  assert (KA : knows_all s t) by (apply (i_knowall s I t); destruct Hm as [E|E]; rewrite E; reflexivity).
  set (s' := mkC _ _ _ _ _ _).
  assert (HTt : T s' t = mkT 0 (vadd (t_view (T s t)) (length (accs s))) Idle) by (unfold T at 1, getT; simpl; rewrite T_set, Nat.eqb_refl; auto).
  assert (HTu : forall u, u <> t -> T s' u = T s u).
  { intros u Hu. unfold T at 1, getT. simpl. rewrite T_set. destruct (Nat.eqb_spec t u); [congruence|reflexivity]. }
  assert (Hnoh : forall u, holds (T s' u) = false).
  { intros u. destruct (Nat.eq_dec u t) as [->|Hu]; [rewrite HTt; reflexivity|rewrite HTu; auto]. }
  assert (Hidle : forall u, t_mode (T s' u) = Idle).
  { intros u. specialize (Hnoh u). unfold holds in Hnoh. apply orb_false_iff in Hnoh. destruct Hnoh as [_ Hn].
    destruct (t_mode (T s' u)); simpl in Hn; congruence. }
  constructor; simpl.
  - apply (i_msgs s I).
  - rewrite (i_raced s I), F. simpl. rewrite !orb_false_r. apply races_false. intros a Ha _ _. apply KA; auto.
  - discriminate.
  - intros u Hu. rewrite Hidle in Hu. congruence.
  - discriminate.
  - intros a Ha He u Hu. unfold holder in Hu. rewrite Hnoh in Hu. discriminate.
  - intros i Hi Hv u Hu. unfold holder in Hu. rewrite Hnoh in Hu. discriminate.
  - intros u Hu. rewrite Hidle in Hu. discriminate.
  - intros u Hu. rewrite Hidle in Hu. discriminate.
  - intros u. unfold lasti. simpl. fold (lasti s). destruct (Nat.eq_dec u t) as [->|Hu]; [rewrite HTt; simpl|rewrite HTu by auto]; apply (i_ts s I).
  - intros i. unfold lasti. simpl. fold (lasti s). apply (i_mts s I).
  - intros _ u. apply Hnoh.
  - intros _. left. reflexivity.
  - intros u Hu. rewrite Hidle in Hu. destruct Hu; discriminate.
  - intros _. apply (i_destr2 s I t Hm).
  - discriminate.
Qed.

Lemma step_clone s t s' : CInv s -> cstep c s (LClone t) = Some s' -> CInv s'.
Proof.
  intros I H. simpl in H. fold (T s t) in H.
  destruct ((0 <? t_owned (T s t)) && is_idle (t_mode (T s t))) eqn:G; [|discriminate].
  apply andb_true_iff in G. destruct G as [G1 G2]. apply Nat.ltb_lt in G1.
  assert (Hm : t_mode (T s t) = Idle) by (destruct (t_mode (T s t)); simpl in *; congruence).
  unfold do_access in H. fold (T s t) in H. simpl in H. inversion H; subst s'; clear H.
  assert (Ht : holder s t) by (apply holder_owned; auto).
  pose proof (not_freed_of_holder s t I Ht) as F.
  pose proof (length_msgs s (i_msgs s I)) as Lm.
  pose proof (idle_everywhere s t I Ht Hm) as Hidle.
  set (v2 := vts (vadd (t_view (T s t)) (length (accs s))) (length (msgs s))).
  set (nm := mkMsg (S (m_val (last_msg s))) (m_view (last_msg s))).
  set (s' := mkC _ _ _ _ _ _).
  assert (HTt : T s' t = mkT (S (t_owned (T s t))) v2 Idle) by (unfold T at 1, getT; simpl; rewrite T_set, Nat.eqb_refl; auto).
  assert (HTu : forall u, u <> t -> T s' u = T s u).
  { intros u Hu. unfold T at 1, getT. simpl. rewrite T_set. destruct (Nat.eqb_spec t u); [congruence|reflexivity]. }
  assert (Hidle' : forall u, t_mode (T s' u) = Idle).
  { intros u. destruct (Nat.eq_dec u t) as [->|Hu]; [rewrite HTt; reflexivity|rewrite HTu; auto]. }
  assert (Hlast : last_msg s' = nm) by (unfold last_msg; simpl; apply last_app_one).
  assert (Hli : lasti s' = S (lasti s)) by (unfold lasti at 1; simpl; apply lasti_app; apply (i_msgs s I)).
  assert (Hn : nacc s' = S (nacc s)) by (unfold nacc; simpl; apply len_acc').
  assert (Hknows : forall u a, knows s u a -> knows s' u a).
  { intros u a K. unfold knows in *. destruct (Nat.eq_dec u t) as [->|Hu]; [rewrite HTt; simpl; auto|rewrite HTu; auto]. }
  assert (Hhold : forall u, holder s' u <-> holder s u).
  { intros u. unfold holder. destruct (Nat.eq_dec u t) as [->|Hu]; [|rewrite HTu; tauto].
    rewrite HTt. split; intros _; [exact Ht|reflexivity]. }
  assert (Hsum : sum_owned (thr s') = S (sum_owned (thr s))).
  { unfold s', setT. simpl. pose proof (sum_set_nth (thr s) t (mkT (S (t_owned (T s t))) v2 Idle)) as S1. simpl in S1. unfold T, getT in *. lia. }
  constructor.
  - simpl. destruct (msgs s); discriminate.
  - simpl. rewrite (i_raced s I), F. simpl. rewrite orb_false_r. apply races_false. apply known_nonexclusive; auto.
  - intros _. rewrite Hlast, Hsum. simpl. rewrite (i_count s I F). reflexivity.
  - intros u Hu. rewrite Hidle' in Hu. congruence.
  - intros _ a Ha. rewrite Hn in Ha. rewrite Hlast. simpl m_view.
    destruct (Nat.eq_dec a (nacc s)) as [->|Hne].
    + right. exists t. split; [apply Hhold; auto|]. unfold knows. rewrite HTt. simpl. auto.
    + assert (Ha' : a < nacc s) by lia. destruct (i_known s I F a Ha') as [K|[u [Hu1 Hu2]]]; [left; exact K|].
      right. exists u. split; [apply Hhold; auto|apply Hknows; auto].
  - intros a Ha He u Hu. rewrite Hn in Ha. destruct (Nat.eq_dec a (nacc s)) as [->|Hne].
    + unfold akind_of in He. simpl in He. rewrite nth_acc_new in He. discriminate.
    + assert (Ha' : a < nacc s) by lia. unfold akind_of in He. simpl in He. rewrite nth_acc_old in He by auto.
      apply Hknows. apply (i_excl s I a Ha' He u). apply Hhold; auto.
  - intros i Hi Hv u Hu. rewrite Hli in Hi. simpl in Hv. rewrite nth_app_msgs in Hv by lia. apply Hhold in Hu.
    destruct (Nat.eq_dec i (lasti s)) as [->|Hne].
    + rewrite nth_lasti in Hv by (apply (i_msgs s I)).
      destruct (Nat.eq_dec u t) as [->|Hut]; [rewrite HTt; simpl; lia|].
      exfalso. pose proof (sole_owner s t u I F G1 Hv Hut). unfold holder in Hu. congruence.
    + assert (Hlt : i < lasti s) by lia. pose proof (i_stale1 s I i Hlt Hv u Hu).
      destruct (Nat.eq_dec u t) as [->|Hut]; [rewrite HTt; simpl; lia|rewrite HTu; auto].
  - intros u Hu. rewrite Hidle' in Hu. discriminate.
  - intros u Hu. rewrite Hidle' in Hu. discriminate.
  - intros u. rewrite Hli. destruct (Nat.eq_dec u t) as [->|Hut]; [rewrite HTt; simpl; pose proof (i_ts s I t); lia|rewrite HTu by auto; pose proof (i_ts s I u); lia].
  - intros i. rewrite Hli. simpl. destruct (Nat.lt_ge_cases i (length (msgs s))) as [L|L].
    + rewrite nth_app_msgs by auto. pose proof (i_mts s I i). lia.
    + rewrite app_nth2 by lia. destruct (i - length (msgs s)) as [|k]; simpl.
      * pose proof (i_mts s I (lasti s)) as Q. rewrite nth_lasti in Q by (apply (i_msgs s I)). lia.
      * destruct k; simpl; lia.
  - simpl. congruence.
  - simpl. rewrite (not_destroyed_idle s t I Ht Hm). discriminate.
  - intros u Hu. rewrite Hidle' in Hu. destruct Hu; discriminate.
  - simpl. congruence.
  - intros _. left. rewrite Hsum. lia.
Qed.

Lemma step_drop s t s' : CInv s -> cstep c s (LDrop t) = Some s' -> CInv s'.
Proof.
  intros I H. simpl in H. fold (T s t) in H.
  destruct ((0 <? t_owned (T s t)) && is_idle (t_mode (T s t))) eqn:G; [|discriminate].
  apply andb_true_iff in G. destruct G as [G1 G2]. apply Nat.ltb_lt in G1.
  assert (Hm : t_mode (T s t) = Idle) by (destruct (t_mode (T s t)); simpl in *; congruence).
  unfold do_access in H. fold (T s t) in H. simpl in H.
  assert (Hdec : dec_release c = true).
  { unfold ok_cfg in OK. apply andb_true_iff in OK. destruct OK as [X _]. apply andb_true_iff in X. tauto. }
  rewrite Hdec in H. inversion H; subst s'; clear H.
  assert (Ht : holder s t) by (apply holder_owned; auto).
  pose proof (not_freed_of_holder s t I Ht) as F.
  pose proof (length_msgs s (i_msgs s I)) as Lm.
  pose proof (idle_everywhere s t I Ht Hm) as Hidle.
  set (v2 := vts (vadd (t_view (T s t)) (length (accs s))) (length (msgs s))).
  set (nm := mkMsg (m_val (last_msg s) - 1) (vjoin (m_view (last_msg s)) v2)).
  set (m' := if Nat.eqb (m_val (last_msg s)) 1 then LastNeedAcq else Idle).
  set (s' := mkC _ _ _ _ _ _).
  assert (Hval : m_val (last_msg s) = sum_owned (thr s)) by (apply (i_count s I F)).
  assert (Hge : t_owned (T s t) <= sum_owned (thr s)) by (unfold T, getT; apply sum_owned_ge).
  assert (HTt : T s' t = mkT (t_owned (T s t) - 1) v2 m') by (unfold T at 1, getT; simpl; rewrite T_set, Nat.eqb_refl; auto).
  assert (HTu : forall u, u <> t -> T s' u = T s u).
  { intros u Hu. unfold T at 1, getT. simpl. rewrite T_set. destruct (Nat.eqb_spec t u); [congruence|reflexivity]. }
  assert (Hlast : last_msg s' = nm) by (unfold last_msg; simpl; apply last_app_one).
  assert (Hli : lasti s' = S (lasti s)) by (unfold lasti at 1; simpl; apply lasti_app; apply (i_msgs s I)).
  assert (Hn : nacc s' = S (nacc s)) by (unfold nacc; simpl; apply len_acc').
  assert (Hknows : forall u a, knows s u a -> knows s' u a).
  { intros u a K. unfold knows in *. destruct (Nat.eq_dec u t) as [->|Hu]; [rewrite HTt; simpl; auto|rewrite HTu; auto]. }
  assert (Hhold : forall u, holder s' u -> holder s u).
  { intros u. unfold holder. destruct (Nat.eq_dec u t) as [->|Hu]; [intros _; exact Ht|rewrite HTu; tauto]. }
  assert (Hhold' : forall u, u <> t -> holder s u -> holder s' u).
  { intros u Hu. unfold holder. rewrite HTu; auto. }
  assert (Hsum : S (sum_owned (thr s')) = sum_owned (thr s)).
  { unfold s', setT. simpl. pose proof (sum_set_nth (thr s) t (mkT (t_owned (T s t) - 1) v2 m')) as S1. simpl in S1. unfold T, getT in *. lia. }
  assert (Hsole : m_val (last_msg s) = 1 -> (forall u, u <> t -> holds (T s u) = false) /\ t_owned (T s t) = 1).
  { intros Hv. split; [intros u Hu; apply (sole_owner s t u I F G1 Hv Hu)|lia]. }
  assert (Hm'idle : forall u, t_mode (T s' u) <> Idle -> u = t /\ m_val (last_msg s) = 1).
  { intros u Hu. destruct (Nat.eq_dec u t) as [->|Hut].
    - split; auto. rewrite HTt in Hu. simpl in Hu. unfold m' in Hu. destruct (Nat.eqb_spec (m_val (last_msg s)) 1); congruence.
    - rewrite HTu in Hu by auto. rewrite Hidle in Hu. congruence. }
  assert (Hm't : t_mode (T s' t) = m') by (rewrite HTt; reflexivity).
  constructor.
  - simpl. destruct (msgs s); discriminate.
  - simpl. rewrite (i_raced s I), F. simpl. rewrite orb_false_r. apply races_false. apply known_nonexclusive; auto.
  - intros _. rewrite Hlast. unfold nm. cbn [m_val]. lia.
  - intros u Hu. destruct (Hm'idle u Hu) as [-> Hv]. destruct (Hsole Hv) as [X Y]. split.
    + intros w Hw. rewrite HTu; auto.
    + rewrite HTt. simpl. unfold m'. rewrite Hv. simpl. lia.
  - intros _ a Ha. rewrite Hn in Ha. rewrite Hlast. simpl m_view.
    destruct (Nat.eq_dec a (nacc s)) as [->|Hne]; [left; simpl; apply in_or_app; right; left; reflexivity|].
    assert (Ha' : a < nacc s) by lia. destruct (i_known s I F a Ha') as [K|[u [Hu1 Hu2]]].
    + left. simpl. apply in_or_app. left. exact K.
    + destruct (Nat.eq_dec u t) as [->|Hut].
      * left. simpl. apply in_or_app. right. right. exact Hu2.
      * right. exists u. split; [apply Hhold'; auto|apply Hknows; auto].
  - intros a Ha He u Hu. rewrite Hn in Ha. destruct (Nat.eq_dec a (nacc s)) as [->|Hne].
    + unfold akind_of in He. simpl in He. rewrite nth_acc_new in He. discriminate.
    + assert (Ha' : a < nacc s) by lia. unfold akind_of in He. simpl in He. rewrite nth_acc_old in He by auto.
      apply Hknows. apply (i_excl s I a Ha' He u). apply Hhold; auto.
  - intros i Hi Hv u Hu. rewrite Hli in Hi. simpl in Hv. rewrite nth_app_msgs in Hv by lia. pose proof (Hhold u Hu) as Hu0.
    destruct (Nat.eq_dec i (lasti s)) as [->|Hne].
    + rewrite nth_lasti in Hv by (apply (i_msgs s I)).
      destruct (Nat.eq_dec u t) as [->|Hut]; [rewrite HTt; simpl; lia|].
      exfalso. destruct (Hsole Hv) as [X _]. specialize (X u Hut). unfold holder in Hu0. congruence.
    + assert (Hlt : i < lasti s) by lia. pose proof (i_stale1 s I i Hlt Hv u Hu0).
      destruct (Nat.eq_dec u t) as [->|Hut]; [rewrite HTt; simpl; lia|rewrite HTu; auto].
  - intros u Hu. assert (Hne : t_mode (T s' u) <> Idle) by congruence. destruct (Hm'idle u Hne) as [-> _].
    rewrite HTt, Hli. simpl. pose proof (i_ts s I t). lia.
  - intros u Hu. exfalso. assert (Hne : t_mode (T s' u) <> Idle) by (destruct (t_mode (T s' u)); simpl in Hu; congruence).
    destruct (Hm'idle u Hne) as [-> Hv]. rewrite Hm't in Hu. unfold m' in Hu. rewrite Hv in Hu. simpl in Hu. discriminate.
  - intros u. rewrite Hli. destruct (Nat.eq_dec u t) as [->|Hut]; [rewrite HTt; simpl; pose proof (i_ts s I t); lia|rewrite HTu by auto; pose proof (i_ts s I u); lia].
  - intros i. rewrite Hli. simpl. destruct (Nat.lt_ge_cases i (length (msgs s))) as [L|L].
    + rewrite nth_app_msgs by auto. pose proof (i_mts s I i). lia.
    + rewrite app_nth2 by lia. destruct (i - length (msgs s)) as [|k]; simpl.
      * pose proof (i_mts s I (lasti s)) as Q. rewrite nth_lasti in Q by (apply (i_msgs s I)). pose proof (i_ts s I t). lia.
      * destruct k; simpl; lia.
  - simpl. congruence.
  - simpl. rewrite (not_destroyed_idle s t I Ht Hm). discriminate.
  - intros u Hu. exfalso. assert (Hne : t_mode (T s' u) <> Idle) by (destruct Hu as [E|E]; rewrite E; discriminate).
    destruct (Hm'idle u Hne) as [-> Hv]. rewrite Hm't in Hu. unfold m' in Hu. rewrite Hv in Hu. simpl in Hu. destruct Hu; discriminate.
  - simpl. congruence.
  - intros _. destruct (Nat.eq_dec (m_val (last_msg s)) 1) as [Hv|Hv].
    + right. exists t. rewrite Hm't. unfold m'. rewrite Hv. simpl. discriminate.
    + left. lia.
Qed.

Lemma step_send s t u s' : CInv s -> cstep c s (LSend t u) = Some s' -> CInv s'.
Proof.
  intros I H. simpl in H. fold (T s t) in H. fold (T s u) in H.
  destruct (negb (Nat.eqb t u) && (0 <? t_owned (T s t)) && is_idle (t_mode (T s t)) && is_idle (t_mode (T s u))) eqn:G; [|discriminate].
  repeat (apply andb_true_iff in G; destruct G as [G ?]). apply negb_true_iff in G. apply Nat.eqb_neq in G. apply Nat.ltb_lt in H2.
  assert (Hmt : t_mode (T s t) = Idle) by (destruct (t_mode (T s t)); simpl in *; congruence).
  inversion H; subst s'; clear H.
  assert (Ht : holder s t) by (apply holder_owned; auto).
  pose proof (not_freed_of_holder s t I Ht) as F.
  pose proof (idle_everywhere s t I Ht Hmt) as Hidle.
  set (x' := mkT (t_owned (T s t) - 1) (t_view (T s t)) Idle).
  set (y' := mkT (S (t_owned (T s u))) (vjoin (t_view (T s u)) (t_view (T s t))) Idle).
  set (s' := mkC _ _ _ _ _ _).
  assert (HT : forall w, T s' w = if Nat.eqb u w then y' else if Nat.eqb t w then x' else T s w).
  { intros w. unfold T at 1, getT. unfold s'. simpl. unfold setT at 1. simpl. rewrite nth_set_nth.
    destruct (Nat.eqb u w); auto. unfold setT. rewrite nth_set_nth. reflexivity. }
  assert (HTu : T s' u = y') by (rewrite HT, Nat.eqb_refl; auto).
  assert (HTt : T s' t = x').
  { rewrite HT. destruct (Nat.eqb_spec u t); [congruence|]. rewrite Nat.eqb_refl. auto. }
  assert (HTw : forall w, w <> t -> w <> u -> T s' w = T s w).
  { intros w H1' H2'. rewrite HT. destruct (Nat.eqb_spec u w); [congruence|]. destruct (Nat.eqb_spec t w); [congruence|auto]. }
  assert (Hidle' : forall w, t_mode (T s' w) = Idle).
  { intros w. destruct (Nat.eq_dec w u) as [->|H1']; [rewrite HTu; reflexivity|].
    destruct (Nat.eq_dec w t) as [->|H2']; [rewrite HTt; reflexivity|]. rewrite HTw; auto. }
  assert (Hknows : forall w a, knows s w a -> knows s' w a).
  { intros w a K. unfold knows in *. destruct (Nat.eq_dec w u) as [->|H1']; [rewrite HTu; simpl; apply in_or_app; auto|].
    destruct (Nat.eq_dec w t) as [->|H2']; [rewrite HTt; simpl; auto|]. rewrite HTw; auto. }
  assert (Hknows_t : forall a, knows s t a -> knows s' u a).
  { intros a K. unfold knows in *. rewrite HTu. simpl. apply in_or_app. auto. }
  assert (Hhu : holder s' u) by (unfold holder; rewrite HTu; reflexivity).
  assert (Hhold : forall w, holder s' w -> w = u \/ holder s w).
  { intros w Hw. destruct (Nat.eq_dec w u) as [->|H1']; auto. right.
    destruct (Nat.eq_dec w t) as [->|H2']; [exact Ht|]. unfold holder in *. rewrite HTw in Hw; auto. }
  assert (Hhold' : forall w, holder s w -> w <> t -> holder s' w).
  { intros w Hw Hne. destruct (Nat.eq_dec w u) as [->|H1']; auto. unfold holder in *. rewrite HTw; auto. }
  assert (Hsum : sum_owned (thr s') = sum_owned (thr s)).
  { unfold s'. simpl. unfold setT at 1. simpl.
    pose proof (sum_set_nth (setT s t x') u y') as S2. simpl in S2.
    pose proof (sum_set_nth (thr s) t x') as S1. simpl in S1. fold (setT s t x') in S1.
    assert (E : nth u (setT s t x') tdefault = T s u).
    { unfold setT. rewrite nth_set_nth. destruct (Nat.eqb_spec t u); [congruence|reflexivity]. }
    rewrite E in S2. unfold T, getT in *. lia. }
  constructor.
  - apply (i_msgs s I).
  - apply (i_raced s I).
  - intros _. rewrite Hsum. apply (i_count s I F).
  - intros w Hw. rewrite Hidle' in Hw. congruence.
  - intros _ a Ha. destruct (i_known s I F a Ha) as [K|[w [Hw1 Hw2]]]; [left; exact K|]. right.
    destruct (Nat.eq_dec w t) as [->|Hne]; [exists u; split; auto|exists w; split; auto].
  - intros a Ha He w Hw. destruct (Hhold w Hw) as [->|Hw0].
    + apply Hknows_t. apply (i_excl s I a Ha He t Ht).
    + apply Hknows. apply (i_excl s I a Ha He w Hw0).
  - intros i Hi Hv w Hw. destruct (Hhold w Hw) as [->|Hw0].
    + rewrite HTu. simpl. pose proof (i_stale1 s I i Hi Hv t Ht). lia.
    + pose proof (i_stale1 s I i Hi Hv w Hw0).
      destruct (Nat.eq_dec w u) as [->|H1']; [rewrite HTu; simpl; lia|].
      destruct (Nat.eq_dec w t) as [->|H2']; [rewrite HTt; simpl; auto|rewrite HTw; auto].
  - intros w Hw. rewrite Hidle' in Hw. discriminate.
  - intros w Hw. rewrite Hidle' in Hw. discriminate.
  - intros w. change (lasti s') with (lasti s).
    destruct (Nat.eq_dec w u) as [->|H1']; [rewrite HTu; simpl; pose proof (i_ts s I u); pose proof (i_ts s I t); lia|].
    destruct (Nat.eq_dec w t) as [->|H2']; [rewrite HTt; simpl; apply (i_ts s I)|rewrite HTw; auto; apply (i_ts s I)].
  - apply (i_mts s I).
  - simpl. congruence.
  - simpl. rewrite (not_destroyed_idle s t I Ht Hmt). discriminate.
  - intros w Hw. rewrite Hidle' in Hw. destruct Hw; discriminate.
  - simpl. congruence.
  - intros _. left. rewrite Hsum. pose proof (sum_owned_ge (thr s) t). unfold T, getT in *. lia.
Qed.

End Labels2.

(** ** the theorems *)
Theorem cstep_inv c s l s' : ok_cfg c = true -> CInv s -> cstep c s l = Some s' -> CInv s'.
Proof.
  intros OK I H. destruct l.
  - eapply step_clone; eauto.
  - eapply step_read; eauto.
  - eapply step_drop; eauto.
  - eapply step_acq; eauto.
  - eapply step_destroy; eauto.
  - eapply step_free; eauto.
  - eapply step_uniq; eauto.
  - eapply step_write; eauto.
  - eapply step_ungrant; eauto.
  - eapply step_moveout; eauto.
  - eapply step_send; eauto.
  - eapply step_sync; eauto.
  - eapply step_strong; eauto.
Qed.

Theorem cexec_inv c ls : ok_cfg c = true -> forall s s', CInv s -> cexec c s ls = Some s' -> CInv s'.
Proof.
  intros OK. induction ls as [|l r IH]; intros s s' I H; simpl in H.
  - inversion H; subst; auto.
  - destruct (cstep c s l) as [s1|] eqn:E; [|discriminate]. apply (IH s1 s'); auto. eapply cstep_inv; eauto.
Qed.

(** Under orderings at least as strong as Release on the decrement and Acquire on the load after the last
    decrement and on the uniqueness test: for ANY number of threads, every schedule and every legal load
    outcome, no access races (with another access or with the deallocation), nothing is accessed after the
    memory is released, and the value is destroyed (or moved out) at most once and freed at most once. *)
Theorem conc_safe c ls s :
  ok_cfg c = true -> cexec c cinit ls = Some s -> raced s = false.
Proof. intros OK H. apply (i_raced s). eapply cexec_inv; eauto. apply cinv_init. Qed.

(** ... and when no thread holds anything any more, it has been destroyed (or moved out) and freed: exactly once *)
Theorem conc_live c ls s :
  ok_cfg c = true -> cexec c cinit ls = Some s -> quiescent s = true -> destroyed s = true /\ freed s = true.
Proof.
  intros OK H Q. assert (I : CInv s) by (eapply cexec_inv; eauto; apply cinv_init).
  assert (F : freed s = true).
  { destruct (freed s) eqn:F; auto. exfalso. unfold quiescent in Q. rewrite forallb_forall in Q.
    destruct (i_live s I F) as [L|[t Ht]].
    - assert (exists t, 0 < t_owned (T s t)) as (t & Hto).
      { clear -L. unfold T, getT. induction (thr s) as [|a l IH]; simpl in L; [lia|].
        destruct (t_owned a) eqn:E; [destruct IH as (t & Ht); [simpl in L; lia|exists (S t); auto]|exists 0; simpl; lia]. }
      destruct (nth_in_or_default t (thr s) tdefault) as [Hin|Hd]; [|unfold T, getT in Hto; rewrite Hd in Hto; simpl in Hto; lia].
      specialize (Q _ Hin). apply negb_true_iff in Q. fold (getT s t) in Q. fold (T s t) in Q.
      pose proof (holder_owned s t Hto) as Hh. unfold holder in Hh. congruence.
    - destruct (nth_in_or_default t (thr s) tdefault) as [Hin|Hd]; [|unfold T, getT in Ht; rewrite Hd in Ht; simpl in Ht; congruence].
      specialize (Q _ Hin). apply negb_true_iff in Q. fold (getT s t) in Q. fold (T s t) in Q.
      pose proof (holder_mode s t Ht) as Hh. unfold holder in Hh. congruence. }
  split; auto. apply (i_freed_destr s I F).
Qed.

(** a uniqueness test cannot be fooled by a stale value: if it reads 1 it read the last message, its caller is
    the only thread holding a handle (and holds exactly one), and afterwards the caller's view contains every
    access ever made to the value -- so the mutable access it is granted is ordered after all of them *)
Theorem uniq_sound c ls s t i s' :
  ok_cfg c = true -> cexec c cinit ls = Some s -> cstep c s (LUniq t i) = Some s' ->
  m_val (nth i (msgs s) (mkMsg 0 vempty)) = 1 ->
  i = lasti s /\ t_owned (T s t) = 1 /\ (forall u, u <> t -> holds (T s u) = false) /\
  t_mode (T s' t) = Granted /\ knows_all s' t.
Proof.
  intros OK H Hs Hv. assert (I : CInv s) by (eapply cexec_inv; eauto; apply cinv_init).
  assert (I' : CInv s') by (eapply cstep_inv; eauto).
  pose proof Hs as Hs0. simpl in Hs. fold (T s t) in Hs.
  destruct ((0 <? t_owned (T s t)) && is_idle (t_mode (T s t)) && (v_ts (t_view (T s t)) <=? i) && (i <? length (msgs s))) eqn:G; [|discriminate].
  repeat (apply andb_true_iff in G; destruct G as [G ?]). apply Nat.ltb_lt in G. apply Nat.leb_le in H1. apply Nat.ltb_lt in H0.
  assert (Ht : holder s t) by (apply holder_owned; auto).
  pose proof (not_freed_of_holder s t I Ht) as F.
  assert (Hi : i = lasti s) by (apply (uniq_reads_last s t i I Ht); auto).
  split; auto. subst i. rewrite nth_lasti in Hv by (apply (i_msgs s I)).
  assert (Hmode : t_mode (T s' t) = Granted).
  { unfold do_access in Hs. fold (T s t) in Hs. inversion Hs; subst s'. unfold T at 1, getT. simpl. rewrite T_set, Nat.eqb_refl. simpl.
    rewrite nth_lasti by (apply (i_msgs s I)). rewrite Hv. reflexivity. }
  split; [|split; [|split]].
  - rewrite (i_count s I F) in Hv. pose proof (sum_owned_ge (thr s) t). unfold T, getT in *. lia.
  - intros u Hu. apply (sole_owner s t u I F G Hv Hu).
  - exact Hmode.
  - apply (i_knowall s' I' t). rewrite Hmode. reflexivity.
Qed.

(** tightness: each of the three orderings is needed -- a concrete racy schedule for each weakening *)
Definition raced_after (c : cfg) (ls : list label) : bool :=
  match cexec c cinit ls with Some s => raced s | None => false end.

Theorem dec_relaxed_refuted :
  raced_after (mkCfg false true true) [LClone 0; LClone 0; LDrop 0; LSend 0 1; LRead 0; LDrop 0; LUniq 1 4; LWrite 1] = true.
Proof. vm_compute. reflexivity. Qed.
Theorem acq_missing_refuted :
  raced_after (mkCfg true false true) [LClone 0; LRead 0; LSend 0 1; LRead 0; LDrop 0; LDrop 1; LAcq 1 3; LDestroy 1] = true.
Proof. vm_compute. reflexivity. Qed.
Theorem uniq_relaxed_refuted :
  raced_after (mkCfg true true false) [LClone 0; LClone 0; LDrop 0; LSend 0 1; LRead 0; LDrop 0; LUniq 1 4; LWrite 1] = true.
Proof. vm_compute. reflexivity. Qed.

(** non-vacuity: a schedule with three threads cloning, sending, reading, a stale strong_count, a declined and a
    granted uniqueness test, a write, and the final drop/acquire/destroy/free is enabled and ends quiescent *)
Example conc_nonvacuous :
  match cexec (mkCfg true true true) cinit
    [LClone 0; LSend 0 1; LClone 1; LStrong 0 1; LSend 1 2; LRead 2; LUniq 0 2; LDrop 2; LRead 1; LDrop 1;
     LUniq 0 4; LWrite 0; LUngrant 0; LDrop 0; LAcq 0 5; LDestroy 0; LFree 0] with
  | Some s => raced s = false /\ quiescent s = true /\ destroyed s = true /\ freed s = true
  | None => False
  end.
Proof. vm_compute. repeat split. Qed.
