(* Generic driver for the extracted models: reads a case file, runs the selected stream's model
   function [list (list N) -> list (list N)] and prints one observation per line.
     modelrun <stream> <casefile>
   case file:  <id>|a b c;d e f;...        output:  <id>.<k>|x y z                           *)
open Model

let n_of_int (i : int) : n =
  let rec pos i = if i = 1 then XH else if i land 1 = 0 then XO (pos (i lsr 1)) else XI (pos (i lsr 1)) in
  if i = 0 then N0 else Npos (pos i)

let ten = n_of_int 10

let n_of_string (s : Stdlib.String.t) : n =
  let r = ref N0 in
  String.iter (fun c ->
      if c >= '0' && c <= '9' then r := N.add (N.mul !r ten) (n_of_int (Char.code c - 48))
      else failwith ("bad number " ^ s)) s;
  !r

let rec int_of_pos = function XH -> 1 | XO p -> 2 * int_of_pos p | XI p -> 2 * int_of_pos p + 1
let int_of_n = function N0 -> 0 | Npos p -> int_of_pos p

let string_of_n (x : n) : Stdlib.String.t =
  (* decimal printing by repeated division (numbers may exceed OCaml's int) *)
  let rec go x acc =
    match x with
    | N0 -> acc
    | _ -> let (q, r) = N.div_eucl x ten in go q (string_of_int (int_of_n r) ^ acc)
  in
  match x with N0 -> "0" | _ -> go x ""

let split_on c s = List.filter (fun x -> x <> "") (String.split_on_char c s)

let () =
  if Array.length Sys.argv < 3 then (prerr_endline "usage: modelrun <stream> <casefile>"; exit 2);
  let stream = Sys.argv.(1) in
  let f = match stream with
    | "layout" -> run_layout
    | "mech" -> run_mech
    | "ptr" -> run_ptr
    | "cmp" -> run_cmp
    | "ctor" -> run_ctor
    | "serde" -> run_serde
    | "sched" -> run_sched
    | _ -> (prerr_endline ("unknown stream " ^ stream); exit 2) in
  let ic = open_in Sys.argv.(2) in
  (try
     while true do
       let line = input_line ic in
       let line = String.trim line in
       if line <> "" && line.[0] <> '#' then begin
         match String.index_opt line '|' with
         | None -> print_endline "?|bad case line"
         | Some i ->
           let id = String.trim (String.sub line 0 i) in
           let rest = String.sub line (i + 1) (String.length line - i - 1) in
           let ops = List.map (fun part -> List.map n_of_string (split_on ' ' (String.trim part)))
               (List.filter (fun p -> String.trim p <> "") (String.split_on_char ';' rest)) in
           let obs = f ops in
           List.iteri (fun k o ->
               print_string id; print_char '.'; print_int k; print_char '|';
               print_endline (String.concat " " (List.map string_of_n o))) obs
       end
     done
   with End_of_file -> ());
  close_in ic
